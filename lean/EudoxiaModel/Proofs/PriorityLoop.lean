import EudoxiaModel.Proofs.PrioBudget
import EudoxiaModel.Proofs.OverbookLoop
import EudoxiaModel.Proofs.CtrKept
/-! The priority scheduler with single-operator containers in closed loop with the executor: the loop never raises.
    (With one operator per container nothing is ever suspendable, so the pre-emption machinery stays idle; the multi-operator mode is not covered here.) -/
namespace Eudoxia.Prio
open Eudoxia OpState Extracted

/-- all waiting jobs -/
def St.jobs (st : St) : List Job := st.qry ++ st.inter ++ st.batch

/-- an operator that may be handed to a container right now -/
def OpOK (w : World) (o : Nat) : Prop :=
  o < w.store.st.size ∧ w.store.stOf o ∈ assignable ∧ (∀ p ∈ w.store.parentsOf o, w.store.stOf p = completed) ∧ w.store.segsOf o ≠ []

structure JobOK (w : World) (j : Job) : Prop where
  one : ∃ o, j.ops = [o] ∧ OpOK w o
  retry : ∀ rs, j.retry = some rs → 0 < rs.oldCpu ∧ 0 < rs.oldRam

structure JobsOK (w : World) (js : List Job) : Prop where
  nd : (js.flatMap (·.ops)).Nodup
  ok : ∀ j ∈ js, JobOK w j

theorem mem_push (st : St) (j : Job) (p : Nat) (x : Job) : x ∈ (st.push j p).jobs ↔ x ∈ st.jobs ∨ x = j := by
  unfold St.push St.jobs
  split
  · simp only [List.mem_append, List.mem_singleton]; grind
  · split
    · simp only [List.mem_append, List.mem_singleton]; grind
    · simp only [List.mem_append, List.mem_singleton]; grind

theorem push_susp (st : St) (j : Job) (p : Nat) : (st.push j p).susp = st.susp := by
  unfold St.push; split
  · rfl
  · split <;> rfl

theorem push_ops_perm (st : St) (j : Job) (p : Nat) : ((st.push j p).jobs.flatMap (·.ops)).Perm (st.jobs.flatMap (·.ops) ++ j.ops) := by
  unfold St.push St.jobs
  split
  · simp only [List.flatMap_append, List.flatMap_cons, List.flatMap_nil, List.append_nil, List.append_assoc]
    refine List.Perm.append_left _ ?_
    refine (List.perm_append_comm_assoc _ _ _).trans ?_
    refine List.Perm.append_left _ ?_
    exact List.perm_append_comm
  · split
    · simp only [List.flatMap_append, List.flatMap_cons, List.flatMap_nil, List.append_nil, List.append_assoc]
      refine List.Perm.append_left _ (List.Perm.append_left _ ?_)
      exact List.perm_append_comm
    · simp only [List.flatMap_append, List.flatMap_cons, List.flatMap_nil, List.append_nil, List.append_assoc]
      exact List.Perm.refl _

theorem jobsOK_push {w : World} {st : St} {j : Job} (p : Nat) (h : JobsOK w st.jobs) (hj : JobOK w j)
    (hnew : ∀ o ∈ j.ops, o ∉ st.jobs.flatMap (·.ops)) : JobsOK w (st.push j p).jobs := by
  refine ⟨?_, ?_⟩
  · apply (push_ops_perm st j p).nodup_iff.mpr
    rw [List.nodup_append]
    obtain ⟨o, ho, _⟩ := hj.one
    refine ⟨h.nd, by rw [ho]; simp, ?_⟩
    intro a ha b hb e
    subst e
    exact hnew a hb ha
  · intro x hx
    rcases (mem_push st j p x).mp hx with hx | rfl
    · exact h.ok x hx
    · exact hj

/-! ### `prEnqueue` in single-operator mode -/

def retryLookup (w : World) (results : List Res) (o : Nat) : Option Retry := ((prRetryInfo w results).find? (·.1 == o)).map (·.2)

/-- what `prEnqueue` does for one pipeline when containers hold one operator -/
def enq1 (w : World) (queued : List Nat) (lookup : Nat → Option Retry) (st : St) (pid : Nat) : St :=
  ((w.getOps pid assignable true).filter (fun o => !queued.contains o)).foldl
    (fun st o => st.push { prio := w.prioOf pid, pid := pid, ops := [o], retry := lookup o } (w.prioOf pid)) st

theorem prEnqueue_single (w : World) (st : St) (results : List Res) (newP : List Nat) (hm : w.cfg.multiOp = false) :
    prEnqueue w st results newP = (prTouched w results newP).foldl (enq1 w (st.jobs.flatMap (·.ops)) (retryLookup w results)) st := by
  unfold prEnqueue
  simp only [hm, Bool.not_false, Bool.false_eq_true, ↓reduceIte]
  split
  · rename_i he
    have : prTouched w results newP = [] := by simpa using he
    rw [this]; rfl
  · congr 1
    funext s pid
    unfold enq1 retryLookup St.jobs
    split
    · rename_i he
      have : ((w.getOps pid assignable true).filter (fun o => !((st.qry ++ st.inter ++ st.batch).flatMap (·.ops)).contains o)) = [] := by simpa using he
      rw [this]; rfl
    · rfl

theorem opOK_of_getOps {w : World} (wf : w.WFP) (hs : w.SegsOK) {pid o : Nat} (h : o ∈ w.getOps pid assignable true) :
    OpOK w o ∧ o ∈ (w.pipes.getD pid default).order := by
  unfold World.getOps at h
  obtain ⟨h1, h2⟩ := List.mem_filter.mp h
  simp only [Bool.and_eq_true, List.contains_iff_mem, Bool.not_true, Bool.false_or, List.all_eq_true, beq_iff_eq] at h2
  exact ⟨⟨(wf pid).2 o h1, h2.1, h2.2, hs pid o h1⟩, h1⟩

theorem getOps_nodup {w : World} (wf : w.WFP) (pid : Nat) (st : List OpState) (pc : Bool) : (w.getOps pid st pc).Nodup := by
  unfold World.getOps
  exact (wf pid).1.sublist List.filter_sublist

theorem enq1_ok (w : World) (wf : w.WFP) (hs : w.SegsOK) (hpid : w.PidOK) (Q0 : List Nat) (lookup : Nat → Option Retry)
    (hl : ∀ o rs, lookup o = some rs → 0 < rs.oldCpu ∧ 0 < rs.oldRam) (done : List Nat) (pid : Nat) (hpd : pid ∉ done) (s : St)
    (hj : JobsOK w s.jobs) (hq : ∀ o ∈ s.jobs.flatMap (·.ops), o ∈ Q0 ∨ w.store.pidOf o ∈ done) :
    JobsOK w (enq1 w Q0 lookup s pid).jobs ∧ (∀ o ∈ (enq1 w Q0 lookup s pid).jobs.flatMap (·.ops), o ∈ Q0 ∨ w.store.pidOf o ∈ pid :: done) ∧
      (enq1 w Q0 lookup s pid).susp = s.susp := by
  have inner : ∀ (l : List Nat) (s : St), l.Nodup → (∀ o ∈ l, o ∈ w.getOps pid assignable true ∧ o ∉ Q0) → JobsOK w s.jobs →
      (∀ o ∈ s.jobs.flatMap (·.ops), o ∈ Q0 ∨ w.store.pidOf o ∈ done ∨ (w.store.pidOf o = pid ∧ o ∉ l)) →
      JobsOK w (l.foldl (fun st o => st.push { prio := w.prioOf pid, pid := pid, ops := [o], retry := lookup o } (w.prioOf pid)) s).jobs ∧
      (∀ o ∈ (l.foldl (fun st o => st.push { prio := w.prioOf pid, pid := pid, ops := [o], retry := lookup o } (w.prioOf pid)) s).jobs.flatMap (·.ops),
          o ∈ Q0 ∨ w.store.pidOf o ∈ pid :: done) ∧
      (l.foldl (fun st o => st.push { prio := w.prioOf pid, pid := pid, ops := [o], retry := lookup o } (w.prioOf pid)) s).susp = s.susp := by
    intro l
    induction l with
    | nil =>
      intro s _ _ hj hq
      refine ⟨hj, ?_, rfl⟩
      intro o ho
      rcases hq o ho with h | h | h
      · exact Or.inl h
      · exact Or.inr (List.mem_cons_of_mem _ h)
      · exact Or.inr (by rw [h.1]; simp)
    | cons x xs ih =>
      intro s hnd hl' hj hq
      simp only [List.foldl_cons]
      obtain ⟨hx1, hx2⟩ := hl' x (by simp)
      obtain ⟨hxok, hxord⟩ := opOK_of_getOps wf hs hx1
      have hxpid : w.store.pidOf x = pid := hpid pid x hxord
      have hxnew : x ∉ s.jobs.flatMap (·.ops) := by
        intro hin
        rcases hq x hin with h | h | h
        · exact hx2 h
        · rw [hxpid] at h; exact hpd h
        · exact h.2 (by simp)
      have hj1 : JobsOK w (s.push { prio := w.prioOf pid, pid := pid, ops := [x], retry := lookup x } (w.prioOf pid)).jobs :=
        jobsOK_push _ hj ⟨⟨x, rfl, hxok⟩, fun rs hrs => hl x rs hrs⟩ (by intro o ho; simp at ho; subst ho; exact hxnew)
      obtain ⟨r1, r2, r3⟩ := ih _ (List.nodup_cons.mp hnd).2 (fun o ho => hl' o (List.mem_cons_of_mem _ ho)) hj1 (by
        intro o ho
        rcases List.mem_append.mp ((push_ops_perm s _ _).mem_iff.mp ho) with h | h
        · rcases hq o h with h | h | h
          · exact Or.inl h
          · exact Or.inr (Or.inl h)
          · exact Or.inr (Or.inr ⟨h.1, fun hc => h.2 (List.mem_cons_of_mem _ hc)⟩)
        · simp at h; subst h
          exact Or.inr (Or.inr ⟨hxpid, (List.nodup_cons.mp hnd).1⟩))
      exact ⟨r1, r2, by rw [r3, push_susp]⟩
  unfold enq1
  apply inner _ s ((getOps_nodup wf pid _ _).sublist List.filter_sublist) _ hj
  · intro o ho
    rcases hq o ho with h | h
    · exact Or.inl h
    · exact Or.inr (Or.inl h)
  · intro o ho
    obtain ⟨h1, h2⟩ := List.mem_filter.mp ho
    exact ⟨h1, by simpa using h2⟩

theorem dedupAppend_nodup {l : List Nat} (h : l.Nodup) (x : Nat) : (dedupAppend l x).Nodup := by
  unfold dedupAppend
  split
  · exact h
  · rename_i hc
    rw [List.nodup_append]
    exact ⟨h, by simp, fun a ha b hb e => by simp at hb; subst hb; subst e; exact hc (by simpa using ha)⟩

theorem prTouched_nodup (w : World) (results : List Res) (newP : List Nat) (h : newP.Nodup) : (prTouched w results newP).Nodup := by
  unfold prTouched
  have inner : ∀ (ops : List Nat) (acc : List Nat), acc.Nodup → (ops.foldl (fun acc o => dedupAppend acc (w.store.pidOf o)) acc).Nodup := by
    intro ops
    induction ops with
    | nil => intro acc h; exact h
    | cons o os ih => intro acc h; exact ih _ (dedupAppend_nodup h _)
  have outer : ∀ (rs : List Res) (acc : List Nat), acc.Nodup →
      (rs.foldl (fun acc r => r.ops.foldl (fun acc o => dedupAppend acc (w.store.pidOf o)) acc) acc).Nodup := by
    intro rs
    induction rs with
    | nil => intro acc h; exact h
    | cons r rs ih => intro acc h; exact ih _ (inner r.ops acc h)
  exact outer results newP h

theorem prRetryInfo_from (w : World) (results : List Res) : ∀ x ∈ prRetryInfo w results, ∃ r ∈ results, x.2 = retryOf r := by
  unfold prRetryInfo
  have inner : ∀ (r : Res) (ops : List Nat) (acc : List (Nat × Retry)) (S : List Res), r ∈ S → (∀ x ∈ acc, ∃ r ∈ S, x.2 = retryOf r) →
      ∀ x ∈ ops.foldl (fun acc o => if w.store.stOf o != completed then (acc.filter (·.1 != o)) ++ [(o, retryOf r)] else acc) acc,
        ∃ r ∈ S, x.2 = retryOf r := by
    intro r ops
    induction ops with
    | nil => intro acc S _ h; exact h
    | cons o os ih =>
      intro acc S hr h
      simp only [List.foldl_cons]
      apply ih _ S hr
      split
      · intro x hx
        rcases List.mem_append.mp hx with hx | hx
        · exact h x (List.mem_filter.mp hx).1
        · simp at hx; subst hx; exact ⟨r, hr, rfl⟩
      · exact h
  have outer : ∀ (rs : List Res) (acc : List (Nat × Retry)) (S : List Res), (∀ r ∈ rs, r ∈ S) → (∀ x ∈ acc, ∃ r ∈ S, x.2 = retryOf r) →
      ∀ x ∈ rs.foldl (fun acc r => if r.ok then acc else r.ops.foldl (fun acc o =>
          if w.store.stOf o != completed then (acc.filter (·.1 != o)) ++ [(o, retryOf r)] else acc) acc) acc, ∃ r ∈ S, x.2 = retryOf r := by
    intro rs
    induction rs with
    | nil => intro acc S _ h; exact h
    | cons r rs ih =>
      intro acc S hS h
      simp only [List.foldl_cons]
      apply ih _ S (fun x hx => hS x (List.mem_cons_of_mem _ hx))
      split
      · exact h
      · exact inner r r.ops acc S (hS r (by simp)) h
  exact outer results [] results (fun r hr => hr) (by simp)

theorem retryLookup_pos (w : World) (results : List Res) (hres : ∀ r ∈ results, 0 < r.cpu ∧ 0 < r.ram) (o : Nat) (rs : Retry)
    (h : retryLookup w results o = some rs) : 0 < rs.oldCpu ∧ 0 < rs.oldRam := by
  unfold retryLookup at h
  cases hf : (prRetryInfo w results).find? (·.1 == o) with
  | none => simp [hf] at h
  | some x =>
    simp [hf] at h
    obtain ⟨r, hr, e⟩ := prRetryInfo_from w results x (List.mem_of_find?_eq_some hf)
    rw [← h, e]
    exact ⟨(hres r hr).1, (hres r hr).2⟩

/-- **what `prEnqueue` leaves in the queues** (single-operator mode): still distinct, ready operators, one per job, with usable retry figures -/
theorem prEnqueue_ok (w : World) (st : St) (results : List Res) (newP : List Nat) (hm : w.cfg.multiOp = false)
    (wf : w.WFP) (hs : w.SegsOK) (hpid : w.PidOK) (hj : JobsOK w st.jobs) (hnd : newP.Nodup) (hres : ∀ r ∈ results, 0 < r.cpu ∧ 0 < r.ram) :
    JobsOK w (prEnqueue w st results newP).jobs ∧ (prEnqueue w st results newP).susp = st.susp := by
  rw [prEnqueue_single w st results newP hm]
  have outer : ∀ (pids done : List Nat) (s : St), pids.Nodup → (∀ x ∈ pids, x ∉ done) → JobsOK w s.jobs →
      (∀ o ∈ s.jobs.flatMap (·.ops), o ∈ st.jobs.flatMap (·.ops) ∨ w.store.pidOf o ∈ done) →
      JobsOK w (pids.foldl (enq1 w (st.jobs.flatMap (·.ops)) (retryLookup w results)) s).jobs ∧
      (pids.foldl (enq1 w (st.jobs.flatMap (·.ops)) (retryLookup w results)) s).susp = s.susp := by
    intro pids
    induction pids with
    | nil => intro done s _ _ h _; exact ⟨h, rfl⟩
    | cons pid rest ih =>
      intro done s hn hd h hq
      simp only [List.foldl_cons]
      obtain ⟨a1, a2, a3⟩ := enq1_ok w wf hs hpid _ _ (retryLookup_pos w results hres) done pid (hd pid (by simp)) s h hq
      obtain ⟨b1, b2⟩ := ih (pid :: done) _ (List.nodup_cons.mp hn).2 (by
        intro x hx hc
        rcases List.mem_cons.mp hc with rfl | hc
        · exact (List.nodup_cons.mp hn).1 hx
        · exact hd x (List.mem_cons_of_mem _ hx) hc) a1 a2
      exact ⟨b1, by rw [b2, a3]⟩
  exact outer _ [] st (prTouched_nodup w results newP hnd) (by simp) hj (fun o ho => Or.inl ho)

/-! ### the pre-emption machinery stays idle -/

theorem prNoteSuspending_idle (w : World) (st : St) (h : w.NoSusp) : prNoteSuspending w st = st := by
  unfold prNoteSuspending
  have : ∀ (ks : List Nat) (s : St), ks.foldl (fun st k =>
      (w.pools.getD k default).suspending.foldl (fun st c => { st with susp := dictSet st.susp c.cid (jobOfCtr w k c) }) st) s = s := by
    intro ks
    induction ks with
    | nil => intro s; rfl
    | cons k ks ih =>
      intro s
      simp only [List.foldl_cons]
      have hk : (w.pools.getD k default).suspending = [] := by
        rw [List.getD_eq_getElem?_getD]
        cases hp : w.pools[k]? with
        | none => rfl
        | some p => exact h p (List.mem_of_getElem? hp)
      rw [hk]
      exact ih s
  exact this _ st

theorem prRequeueSuspended_idle (w : World) (st : St) (h : st.susp = []) : prRequeueSuspended w st = st := by
  unfold prRequeueSuspended
  have inner : ∀ (cs : List Ctr) (s : St), s.susp = [] → cs.foldl (fun st c =>
      match st.susp.find? (·.1 == c.cid) with
      | some (_, job) => ({ st with susp := st.susp.filter (·.1 != c.cid) }).push job job.prio
      | none => st) s = s := by
    intro cs
    induction cs with
    | nil => intro s _; rfl
    | cons c cs ih =>
      intro s hs
      simp only [List.foldl_cons, hs, List.find?_nil]
      exact ih s hs
  have : ∀ (ks : List Nat) (s : St), s.susp = [] → ks.foldl (fun st k => (w.pools.getD k default).suspended.foldl (fun st c =>
      match st.susp.find? (·.1 == c.cid) with
      | some (_, job) => ({ st with susp := st.susp.filter (·.1 != c.cid) }).push job job.prio
      | none => st) st) s = s := by
    intro ks
    induction ks with
    | nil => intro s _; rfl
    | cons k ks ih =>
      intro s hs
      simp only [List.foldl_cons]
      rw [inner _ s hs]
      exact ih s hs
  exact this _ st h

theorem prSuspend_idle (pools : List (List Ctr)) (need : Nat) (h : ∀ l ∈ pools, ∀ c ∈ l, c.canSuspend = false) : prSuspend pools need = [] := by
  unfold prSuspend
  simp only
  split
  · rfl
  · have go : ∀ (fuel : Nat) (iters : List (List Ctr)) (exh : List Bool) (pid cnt : Nat) (acc : List (Nat × Nat)),
        (∀ l ∈ iters, ∀ c ∈ l, c.canSuspend = false) → prSuspend.go need pools.length fuel iters exh pid cnt acc = acc := by
      intro fuel
      induction fuel with
      | zero => intro iters exh pid cnt acc _; rfl
      | succ f ih =>
        intro iters exh pid cnt acc hi
        unfold prSuspend.go
        split
        · rfl
        · split
          · rfl
          · have hget : ∀ c ∈ iters.getD pid [], c.canSuspend = false := by
              intro c hc
              rw [List.getD_eq_getElem?_getD] at hc
              cases hp : iters[pid]? with
              | none => simp [hp] at hc
              | some l => simp [hp] at hc; exact hi l (List.mem_of_getElem? hp) c hc
            have hset : ∀ (l' : List Ctr), (∀ c ∈ l', c.canSuspend = false) → ∀ l ∈ iters.set pid l', ∀ c ∈ l, c.canSuspend = false := by
              intro l' hl' l hl c hc
              rcases List.mem_or_eq_of_mem_set hl with h1 | h1
              · exact hi l h1 c hc
              · subst h1; exact hl' c hc
            simp only
            split
            · exact ih _ _ _ _ _ (hset [] (by simp))
            · rename_i c more hdw
              have hsub : ∀ x ∈ c :: more, x.canSuspend = false := by
                intro x hx
                rw [← hdw] at hx
                exact hget x ((List.dropWhile_sublist _).subset hx)
              have hc : c.canSuspend = false := hsub c (by simp)
              simp only [hc, Bool.false_eq_true, ↓reduceIte]
              exact ih _ _ _ _ _ (hset more (fun x hx => hsub x (List.mem_cons_of_mem _ hx)))
    exact go _ _ _ _ _ _ h

/-! ### one queue run -/

theorem opOK_keep {w w' : World} {o : Nat} (hs : Steps w.store w'.store) (he : w'.store.stOf o = w.store.stOf o) (h : OpOK w o) : OpOK w' o := by
  obtain ⟨b1, b2, b3, b4⟩ := h
  refine ⟨by rw [hs.size]; exact b1, by rw [he]; exact b2, ?_, by unfold Store.segsOf at b4 ⊢; rw [hs.ops]; exact b4⟩
  intro p hp
  have hp' : p ∈ w.store.parentsOf o := by unfold Store.parentsOf at hp ⊢; rw [← hs.ops]; exact hp
  exact completed_final hs p (b3 p hp')

theorem jobOK_keep {w w' : World} {j : Job} (hs : Steps w.store w'.store) (he : ∀ o ∈ j.ops, w'.store.stOf o = w.store.stOf o) (h : JobOK w j) : JobOK w' j := by
  obtain ⟨o, ho, hok⟩ := h.one
  exact ⟨⟨o, ho, opOK_keep hs (he o (by rw [ho]; simp)) hok⟩, h.retry⟩

theorem newSize_pos (q : Nat) (hq : 0 < q) (s : Snap) (h0 : 0 < s.availC) (h1 : 0 < s.availR) : 0 < (newSize q s).1 ∧ 0 < (newSize q s).2 := by
  unfold newSize
  simp only
  split
  · exact ⟨by omega, by omega⟩
  · exact ⟨by omega, Nat.mul_pos (by omega) hq⟩

theorem prSize_pos (q : Nat) (hq : 0 < q) (s : Snap) (job : Job) (jc jr : Nat) (h0 : 0 < s.availC) (h1 : 0 < s.availR)
    (hr : ∀ rs, job.retry = some rs → 0 < rs.oldCpu ∧ 0 < rs.oldRam) (h : prSize q s job = some (jc, jr)) : 0 < jc ∧ 0 < jr := by
  have hn := newSize_pos q hq s h0 h1
  unfold prSize at h
  split at h
  · rename_i rs hrs
    obtain ⟨p1, p2⟩ := hr rs hrs
    split at h
    · split at h
      · cases h
      · split at h
        · cases h
        · cases h; exact ⟨by omega, by omega⟩
    · split at h
      · cases h; exact ⟨p1, p2⟩
      · simp only [Option.some.injEq] at h; rw [h] at hn; exact hn
  · simp only [Option.some.injEq] at h; rw [h] at hn; exact hn

theorem snapSub_length (sn : List Snap) (k cpu ram : Nat) : (snapSub sn k cpu ram).length = sn.length := by simp [snapSub]

/-- **one queue run never raises** (single-operator jobs): it consumes `m` jobs from the head, every container it builds is for the operator of one of
them, on an existing pool, and all goes through the checked `Assignment` constructor -/
theorem prQueue_run (q : Nat) (hq : 0 < q) : ∀ (jobs : List Job) (w : World) (sn : List Snap) (k : Nat) (acc : List Asg),
    (jobs.flatMap (·.ops)).Nodup → (∀ j ∈ jobs, JobOK w j) → sn.length = w.pools.length → C08.NonNegS sn →
    ∃ w' sn' k' m new, prQueue q w jobs sn k acc = .ok (w', sn', k', acc ++ new) ∧ k' = k + m ∧ m ≤ jobs.length ∧ Built w new w' ∧
      C08.NonNegS sn' ∧ sn'.length = sn.length ∧
      (∀ a ∈ new, a.pool < w.pools.length ∧ ∃ o, a.ops = [o] ∧ o ∈ (jobs.take m).flatMap (·.ops)) := by
  intro jobs
  induction jobs with
  | nil =>
    intro w sn k acc _ _ _ hn
    exact ⟨w, sn, k, 0, [], by simp [prQueue], rfl, by simp, .nil _, hn, rfl, by simp⟩
  | cons job rest ih =>
    intro w sn k acc hnd hok hlen hn
    have hndr : (rest.flatMap (·.ops)).Nodup := by
      rw [List.flatMap_cons, List.nodup_append] at hnd; exact hnd.2.1
    unfold prQueue
    cases hb : bestPool sn with
    | none =>
      simp only
      exact ⟨w, sn, k, 0, [], by simp, rfl, by simp, .nil _, hn, rfl, by simp⟩
    | some pool =>
      simp only
      obtain ⟨hp, hopen, _⟩ := C12.bestPool_spec sn pool hb
      cases hsz : prSize q (sn.getD pool default) job with
      | none =>
        simp only
        obtain ⟨w', sn', k', m, new, e1, e2, e3, e4, e5, e6, e7⟩ := ih w sn (k + 1) acc hndr (fun j hj => hok j (List.mem_cons_of_mem _ hj)) hlen hn
        refine ⟨w', sn', k', m + 1, new, e1, by omega, by simp; omega, e4, e5, e6, ?_⟩
        intro a ha
        obtain ⟨a1, o, a2, a3⟩ := e7 a ha
        exact ⟨a1, o, a2, by simp only [List.take_succ_cons, List.flatMap_cons]; exact List.mem_append_right _ a3⟩
      | some sz =>
        obtain ⟨jc, jr⟩ := sz
        simp only
        have hj := hok job (by simp)
        obtain ⟨o, ho, hoo⟩ := hj.one
        obtain ⟨pc, pr⟩ := prSize_pos q hq _ job jc jr hopen.1 hopen.2 hj.retry hsz
        obtain ⟨fc, fr⟩ := C08.prSize_fits q _ job jc jr hopen.1 hopen.2 hsz
        obtain ⟨w1, hw1⟩ := mkAssignment_succeeds w { ops := job.ops, cpu := jc, ram := jr, prio := job.prio, pool := pool }
          (by rw [ho]; simp) pc pr (by rw [ho]; simp) (by intro x hx; rw [ho] at hx; simp at hx; subst hx; exact ⟨hoo.1, hoo.2.1⟩)
        have hmk : mkA w job.ops jc jr job.prio pool = .ok (w1, { ops := job.ops, cpu := jc, ram := jr, prio := job.prio, pool := pool }) := by
          unfold mkA; rw [hw1]
        rw [hmk]
        simp only
        obtain ⟨_, _, _, _, _, m6⟩ := mkAssignment_spec hw1
        have hst1 : Steps w.store w1.store := mkAssignment_steps_ok hw1
        obtain ⟨hp1, _, _⟩ := mkAssignment_pools_ok hw1
        have hdisj : ∀ j ∈ rest, ∀ x ∈ j.ops, x ∉ job.ops := by
          intro j hj x hx hc
          rw [List.flatMap_cons, List.nodup_append] at hnd
          exact hnd.2.2 x hc x (List.mem_flatMap.mpr ⟨j, hj, hx⟩) rfl
        obtain ⟨w', sn', k', m, new, e1, e2, e3, e4, e5, e6, e7⟩ := ih w1 (snapSub sn pool jc jr) (k + 1)
          (acc ++ [{ ops := job.ops, cpu := jc, ram := jr, prio := job.prio, pool := pool }]) hndr
          (fun j hj' => jobOK_keep hst1 (fun x hx => m6 x (hdisj j hj' x hx)) (hok j (List.mem_cons_of_mem _ hj')))
          (by rw [snapSub_length, hp1]; exact hlen) (C08.snapSub_nonneg sn pool jc jr hn fc fr)
        refine ⟨w', sn', k', m + 1, { ops := job.ops, cpu := jc, ram := jr, prio := job.prio, pool := pool } :: new, ?_, by omega, by simp; omega,
          .cons hw1 e4, e5, by rw [e6, snapSub_length], ?_⟩
        · rw [e1]; simp
        · intro a ha
          rcases List.mem_cons.mp ha with rfl | ha
          · exact ⟨by rw [← hlen]; exact hp, o, ho, by simp [ho]⟩
          · obtain ⟨a1, o', a2, a3⟩ := e7 a ha
            exact ⟨by rw [← hp1]; exact a1, o', a2, by simp only [List.take_succ_cons, List.flatMap_cons]; exact List.mem_append_right _ a3⟩

/-! ### one whole round -/

theorem count_flatMap_mem {l : List Job} {x : Nat} (h : x ∈ l.flatMap (·.ops)) : 1 ≤ (l.flatMap (·.ops)).count x :=
  List.count_pos_iff.mpr h

theorem count_split (l : List Job) (m : Nat) (x : Nat) :
    (l.flatMap (·.ops)).count x = ((l.take m).flatMap (·.ops)).count x + ((l.drop m).flatMap (·.ops)).count x := by
  conv => lhs; rw [← List.take_append_drop m l]
  rw [List.flatMap_append, List.count_append]

theorem mem_ops_of_sub {l l' : List Job} (hs : ∀ j ∈ l', j ∈ l) {x : Nat} (h : x ∈ l'.flatMap (·.ops)) : x ∈ l.flatMap (·.ops) := by
  obtain ⟨j, hj, hx⟩ := List.mem_flatMap.mp h
  exact List.mem_flatMap.mpr ⟨j, hs j hj, hx⟩

/-- **one round of `priority` with single-operator containers never raises**; it suspends nothing, what it assigns is admissible and within every
pool's free capacity, and what it leaves in the queues is again a set of distinct ready operators -/
theorem prRound_single (w : World) (st : St) (results : List Res) (newP : List Nat) (hm : w.cfg.multiOp = false) (hq : 0 < w.cfg.q)
    (wf : w.WFP) (hs : w.SegsOK) (hpid : w.PidOK) (hj : JobsOK w st.jobs) (hsu : st.susp = []) (hns : w.NoSusp) (hnd : newP.Nodup)
    (hres : ∀ r ∈ results, 0 < r.cpu ∧ 0 < r.ram) (hnn : ∀ p ∈ w.pools, 0 ≤ p.availC ∧ 0 ≤ p.availR)
    (hcs : ∀ p ∈ w.pools, ∀ c ∈ p.active, c.canSuspend = false) :
    ∃ w' st' asgs, prRound w st results newP = .ok (w', st', { sus := [], asgs := asgs }) ∧ Built w asgs w' ∧ JobsOK w' st'.jobs ∧ st'.susp = [] ∧
      (∀ a ∈ asgs, a.pool < w.pools.length ∧ ∃ o, a.ops = [o] ∧ OpOK w o) ∧
      (∀ p, p < w.pools.length → verifyAssignments w.cfg (w.pools.getD p default) (asgs.filter (·.pool == p)) = .ok ()) := by
  obtain ⟨hj0, hsu0⟩ := prEnqueue_ok w st results newP hm wf hs hpid hj hnd hres
  generalize hst0 : prEnqueue w st results newP = st0 at hj0 hsu0
  have e0 : prRequeueSuspended w (prNoteSuspending w (prEnqueue w st results newP)) = st0 := by
    rw [hst0, prNoteSuspending_idle _ _ hns, prRequeueSuspended_idle _ _ (by rw [hsu0, hsu])]
  have hsn : C08.NonNegS (snaps w) := by
    intro s hs'
    simp only [snaps, List.mem_map] at hs'
    obtain ⟨pl, hpl, rfl⟩ := hs'
    exact hnn pl hpl
  have hcount := (nodup_iff_count_le_one _).mp hj0.nd
  have hjq : ∀ j, j ∈ st0.qry → j ∈ st0.jobs := fun j h => by unfold St.jobs; simp [h]
  have hji : ∀ j, j ∈ st0.inter → j ∈ st0.jobs := fun j h => by unfold St.jobs; simp [h]
  have hjb : ∀ j, j ∈ st0.batch → j ∈ st0.jobs := fun j h => by unfold St.jobs; simp [h]
  have hndq : (st0.qry.flatMap (·.ops)).Nodup := by
    have := hj0.nd; unfold St.jobs at this; rw [List.flatMap_append, List.flatMap_append] at this
    exact (List.nodup_append.mp (List.nodup_append.mp this).1).1
  have hndi : (st0.inter.flatMap (·.ops)).Nodup := by
    have := hj0.nd; unfold St.jobs at this; rw [List.flatMap_append, List.flatMap_append] at this
    exact (List.nodup_append.mp (List.nodup_append.mp this).1).2.1
  have hndb : (st0.batch.flatMap (·.ops)).Nodup := by
    have := hj0.nd; unfold St.jobs at this; rw [List.flatMap_append, List.flatMap_append] at this
    exact (List.nodup_append.mp this).2.1
  -- counts: every operator occurs at most once in the three queues together, each split into what is taken and what stays
  have hC : ∀ (m1 m2 m3 x : Nat),
      ((st0.qry.take m1).flatMap (·.ops)).count x + ((st0.qry.drop m1).flatMap (·.ops)).count x +
      (((st0.inter.take m2).flatMap (·.ops)).count x + ((st0.inter.drop m2).flatMap (·.ops)).count x) +
      (((st0.batch.take m3).flatMap (·.ops)).count x + ((st0.batch.drop m3).flatMap (·.ops)).count x) ≤ 1 := by
    intro m1 m2 m3 x
    have := hcount x
    unfold St.jobs at this
    rw [List.flatMap_append, List.flatMap_append, List.count_append, List.count_append, count_split st0.qry m1, count_split st0.inter m2,
      count_split st0.batch m3] at this
    exact this
  -- query queue
  obtain ⟨w1, sn1, k1, m1, new1, r1, rk1, rm1, b1, n1, l1, a1⟩ := prQueue_run w.cfg.q hq st0.qry w (snaps w) 0 [] hndq
    (fun j hj' => hj0.ok j (hjq j hj')) (by simp [snaps]) hsn
  simp only [List.nil_append, Nat.zero_add] at r1 rk1
  rw [rk1] at r1
  obtain ⟨f1p, f1c, _, f1s⟩ := built_frame b1
  obtain ⟨_, _, _, s1⟩ := built_spec b1
  have hnew1 : ∀ x ∈ new1.flatMap (·.ops), x ∈ (st0.qry.take m1).flatMap (·.ops) := by
    intro x hx
    obtain ⟨a, ha, hxa⟩ := List.mem_flatMap.mp hx
    obtain ⟨_, o, ho, hoo⟩ := a1 a ha
    rw [ho] at hxa; simp at hxa; subst hxa; exact hoo
  -- interactive queue
  obtain ⟨w2, sn2, k2, m2, new2, r2, rk2, rm2, b2, n2, l2, a2⟩ := prQueue_run w.cfg.q hq st0.inter w1 sn1 0 [] hndi
    (fun j hj' => jobOK_keep f1s (fun x hx => s1 x (fun hc => by
        have c1 := count_flatMap_mem (hnew1 x hc)
        have c2 := count_flatMap_mem (List.mem_flatMap.mpr ⟨j, hj', hx⟩)
        have := hC m1 0 0 x
        simp only [List.take_zero, List.drop_zero, List.flatMap_nil, List.count_nil] at this
        omega)) (hj0.ok j (hji j hj')))
    (by rw [l1, f1p]; simp [snaps]) n1
  simp only [List.nil_append, Nat.zero_add] at r2 rk2
  rw [rk2] at r2
  obtain ⟨f2p, f2c, _, f2s⟩ := built_frame b2
  obtain ⟨_, _, _, s2⟩ := built_spec b2
  have hnew2 : ∀ x ∈ new2.flatMap (·.ops), x ∈ (st0.inter.take m2).flatMap (·.ops) := by
    intro x hx
    obtain ⟨a, ha, hxa⟩ := List.mem_flatMap.mp hx
    obtain ⟨_, o, ho, hoo⟩ := a2 a ha
    rw [ho] at hxa; simp at hxa; subst hxa; exact hoo
  -- batch queue
  obtain ⟨w3, sn3, k3, m3, new3, r3, rk3, rm3, b3, n3, l3, a3⟩ := prQueue_run w.cfg.q hq st0.batch w2 sn2 0 [] hndb
    (fun j hj' => jobOK_keep (f1s.trans f2s) (fun x hx => by
        have c2 := count_flatMap_mem (List.mem_flatMap.mpr ⟨j, hj', hx⟩)
        have hh := hC m1 m2 0 x
        simp only [List.take_zero, List.drop_zero, List.flatMap_nil, List.count_nil] at hh
        rw [s2 x (fun hc => by have := count_flatMap_mem (hnew2 x hc); omega), s1 x (fun hc => by have := count_flatMap_mem (hnew1 x hc); omega)])
      (hj0.ok j (hjb j hj')))
    (by rw [l2, l1, f2p, f1p]; simp [snaps]) n2
  simp only [List.nil_append, Nat.zero_add] at r3 rk3
  rw [rk3] at r3
  obtain ⟨f3p, f3c, _, f3s⟩ := built_frame b3
  obtain ⟨_, _, _, s3⟩ := built_spec b3
  have hnew3 : ∀ x ∈ new3.flatMap (·.ops), x ∈ (st0.batch.take m3).flatMap (·.ops) := by
    intro x hx
    obtain ⟨a, ha, hxa⟩ := List.mem_flatMap.mp hx
    obtain ⟨_, o, ho, hoo⟩ := a3 a ha
    rw [ho] at hxa; simp at hxa; subst hxa; exact hoo
  -- nothing is suspendable
  have hidle : prSuspend (w.pools.map (·.active)) (st0.qry.drop m1).length = [] := by
    apply prSuspend_idle
    intro l hl c hc
    obtain ⟨p, hp, rfl⟩ := List.mem_map.mp hl
    exact hcs p hp c hc
  have hcq : w1.cfg.q = w.cfg.q := by rw [f1c]
  have hcq2 : w2.cfg.q = w.cfg.q := by rw [f2c, f1c]
  refine ⟨w3, { st0 with qry := st0.qry.drop m1, inter := st0.inter.drop m2, batch := st0.batch.drop m3 }, new1 ++ new2 ++ new3, ?_, (b1.append b2).append b3, ?_, ?_, ?_, ?_⟩
  · unfold prRound
    simp only [e0, r1, r2, r3, hidle, ite_self, List.foldl_nil]
  · -- the queues after the round
    refine ⟨?_, ?_⟩
    · apply (nodup_iff_count_le_one _).mpr
      intro x
      have := hC m1 m2 m3 x
      show ((st0.qry.drop m1 ++ st0.inter.drop m2 ++ st0.batch.drop m3).flatMap (·.ops)).count x ≤ 1
      rw [List.flatMap_append, List.flatMap_append, List.count_append, List.count_append]
      omega
    · intro j hj'
      have hj'' : j ∈ st0.qry.drop m1 ∨ j ∈ st0.inter.drop m2 ∨ j ∈ st0.batch.drop m3 := by
        have : j ∈ st0.qry.drop m1 ++ st0.inter.drop m2 ++ st0.batch.drop m3 := hj'
        simpa [List.mem_append, or_assoc] using this
      have horig : j ∈ st0.jobs := by
        rcases hj'' with h | h | h
        · exact hjq j (List.mem_of_mem_drop h)
        · exact hji j (List.mem_of_mem_drop h)
        · exact hjb j (List.mem_of_mem_drop h)
      apply jobOK_keep ((f1s.trans f2s).trans f3s) _ (hj0.ok j horig)
      intro x hx
      have hh := hC m1 m2 m3 x
      have hx1 : x ∉ new1.flatMap (·.ops) := fun hc => by
        have c := count_flatMap_mem (hnew1 x hc)
        rcases hj'' with h | h | h <;> have c2 := count_flatMap_mem (List.mem_flatMap.mpr ⟨j, h, hx⟩) <;> omega
      have hx2 : x ∉ new2.flatMap (·.ops) := fun hc => by
        have c := count_flatMap_mem (hnew2 x hc)
        rcases hj'' with h | h | h <;> have c2 := count_flatMap_mem (List.mem_flatMap.mpr ⟨j, h, hx⟩) <;> omega
      have hx3 : x ∉ new3.flatMap (·.ops) := fun hc => by
        have c := count_flatMap_mem (hnew3 x hc)
        rcases hj'' with h | h | h <;> have c2 := count_flatMap_mem (List.mem_flatMap.mpr ⟨j, h, hx⟩) <;> omega
      rw [s3 x hx3, s2 x hx2, s1 x hx1]
  · show st0.susp = []
    rw [hsu0, hsu]
  · intro a ha
    have ha' : a ∈ new1 ∨ a ∈ new2 ∨ a ∈ new3 := by simpa [List.mem_append, or_assoc] using ha
    have fromq : ∀ (l : List Job) (m : Nat) (o : Nat), (∀ j, j ∈ l → j ∈ st0.jobs) → o ∈ (l.take m).flatMap (·.ops) → OpOK w o := by
      intro l m o hl ho
      obtain ⟨j, hjm, hoj⟩ := List.mem_flatMap.mp ho
      obtain ⟨o', e, ok⟩ := (hj0.ok j (hl j (List.mem_of_mem_take hjm))).one
      rw [e] at hoj; simp at hoj; subst hoj; exact ok
    rcases ha' with h | h | h
    · obtain ⟨p1, o, ho, hoo⟩ := a1 a h
      exact ⟨p1, o, ho, fromq _ _ _ hjq hoo⟩
    · obtain ⟨p1, o, ho, hoo⟩ := a2 a h
      exact ⟨by rw [← f1p]; exact p1, o, ho, fromq _ _ _ hji hoo⟩
    · obtain ⟨p1, o, ho, hoo⟩ := a3 a h
      exact ⟨by rw [← f1p, ← f2p]; exact p1, o, ho, fromq _ _ _ hjb hoo⟩
  · intro p hp
    obtain ⟨_, _, x1, e1, bb1⟩ := C08.prQueue_budget _ _ _ _ _ _ _ _ _ _ r1 hsn
    obtain ⟨_, _, x2, e2, bb2⟩ := C08.prQueue_budget _ _ _ _ _ _ _ _ _ _ r2 n1
    obtain ⟨_, _, x3, e3, bb3⟩ := C08.prQueue_budget _ _ _ _ _ _ _ _ _ _ r3 n2
    simp only [List.nil_append] at e1 e2 e3
    subst e1 e2 e3
    exact C08.accepted_of_budget w _ _ (C08.budget_trans (C08.budget_trans bb1 bb2) bb3) n3 p hp

/-! ### the closed loop -/

/-- everything the closed loop of `priority` with single-operator containers keeps true from tick to tick -/
structure PRInv (w : World) (st : St) (res : List Res) : Prop where
  ready : WorldReady w
  wfp : w.WFP
  segs : w.SegsOK
  pid : w.PidOK
  nosusp : w.NoSusp
  multi : w.cfg.multiOp = false
  over : w.cfg.overcommit = false
  q : 0 < w.cfg.q
  jobs : JobsOK w st.jobs
  susp : st.susp = []
  rs : ∀ r ∈ res, ∃ c, SingleCtr c ∧ r = mkRes c
  single : ∀ p ∈ w.pools, AllC SingleCtr p.active

/-- **one scheduling round of `priority` (single-operator containers) plus one executor tick never raise**, and everything needed for the next round
holds again -/
theorem priority_single_tick_never_raises (w : World) (st : St) (res : List Res) (newP : List Nat) (hnd : newP.Nodup) (inv : PRInv w st res) :
    ∃ w1 st1 dec w2 res2, prRound w st res newP = .ok (w1, st1, dec) ∧ w1.execTick dec.sus dec.asgs = .ok (w2, res2) ∧ PRInv w2 st1 res2 := by
  have hnn : ∀ p ∈ w.pools, 0 ≤ p.availC ∧ 0 ≤ p.availR := by
    intro p hp
    have g := (inv.ready.pools p hp).1.1.2
    exact ⟨g.1, g.2 inv.over⟩
  obtain ⟨w1, st1, asgs, hrd, hb, hj1, hsu1, hall, hbud⟩ := prRound_single w st res newP inv.multi inv.q inv.wfp inv.segs inv.pid inv.jobs inv.susp
    inv.nosusp hnd (by intro r hr; obtain ⟨c, hc, rfl⟩ := inv.rs r hr; exact ⟨hc.2.1, hc.2.2.1⟩) hnn
    (by intro p hp c hc; exact (inv.single p hp c hc).2.2.2.2)
  obtain ⟨e1, e2, e3, est⟩ := built_frame hb
  have hseg0 : ∀ a ∈ asgs, ∀ r ∈ a.ops, w.store.segsOf r ≠ [] := by
    intro a ha r hrr
    obtain ⟨_, o, eo, ok⟩ := hall a ha
    rw [eo] at hrr; simp at hrr; subst hrr
    exact ok.2.2.2
  have hpar : ∀ a ∈ asgs, ParentsOK w1.store a.ops := by
    intro a ha
    obtain ⟨_, r0, er, ok⟩ := hall a ha
    rw [er]
    intro pre o post e q hq
    have : pre = [] ∧ o = r0 := by
      cases pre with
      | nil => simp at e; exact ⟨rfl, e.1.symm⟩
      | cons x xs => simp at e
    obtain ⟨rfl, rfl⟩ := this
    have hq' : q ∈ w.store.parentsOf o := by unfold Store.parentsOf at hq ⊢; rw [← est.ops]; exact hq
    exact Or.inl (completed_final est q (ok.2.2.1 q hq'))
  obtain ⟨w2, res2, hex, r2, p2, c2, st2⟩ := execTick_succeeds_of_gates w w1 asgs inv.ready hb hseg0 hpar
    (by intro a ha; rw [e1]; exact (hall a ha).1)
    (by intro k p hk
        right
        rw [e1] at hk
        have hklt : k < w.pools.length := (List.getElem?_eq_some_iff.mp hk).1
        have := hbud k hklt
        rw [List.getD_eq_getElem?_getD, hk] at this
        simp only [Option.getD_some] at this
        rw [e2]; exact this)
    (by intro a ha
        obtain ⟨_, r0, er, _⟩ := hall a ha
        unfold opCountOk
        rw [e2, inv.multi, er]
        simp)
  have hJ := poolsReady_of_built w w1 asgs inv.ready hb hseg0 hpar
  have hpools1 : ∀ p ∈ w1.pools, AllC SingleCtr p.active ∧ p.suspending = [] := by
    intro p hp; rw [e1] at hp; exact ⟨inv.single p hp, inv.nosusp p hp⟩
  have hbs := (built_spec hb).2.1
  have hfacts : StepsP TickTarget w1.store w2.store ∧ (∀ p ∈ w2.pools, AllC SingleCtr p.active ∧ p.suspending = []) ∧ ∀ r ∈ res2, ∃ c, SingleCtr c ∧ r = mkRes c := by
    unfold World.execTick at hex
    split at hex
    · cases hex
    · split at hex
      · cases hex
      · cases hex
      · rename_i s ps n rr hexp
        simp only [Except.ok.injEq, Prod.mk.injEq] at hex
        obtain ⟨rfl, rfl⟩ := hex
        obtain ⟨t, _⟩ := execPools_targets w1.cfg asgs w1.pools w1.store w1.nextCid [] [] s ps n rr hJ.live
          (by intro p hp; simp only [List.nil_append] at hp; exact (hpools1 p hp).2) hexp
        obtain ⟨o1, o2⟩ := execPools_kept w1.cfg asgs (single_kept w1.cfg)
          (fun a ha s' j => mkCtr_single s' j a (let ⟨_, r0, er, _⟩ := hall a ha; ⟨r0, er⟩) (hbs a ha).2.1 (hbs a ha).2.2)
          w1.pools w1.store w1.nextCid [] [] s ps n rr (by intro p hp; simp only [List.nil_append] at hp; exact hpools1 p hp) (by simp) hexp
        exact ⟨t, o1, o2⟩
  obtain ⟨tt, hp2, hr2⟩ := hfacts
  refine ⟨w1, st1, { sus := [], asgs := asgs }, w2, res2, hrd, hex,
    ⟨r2, ?_, ?_, ?_, fun p hp => (hp2 p hp).2, by rw [c2, e2]; exact inv.multi, by rw [c2, e2]; exact inv.over, by rw [c2, e2]; exact inv.q, ?_, hsu1, hr2,
      fun p hp => (hp2 p hp).1⟩⟩
  · intro pid
    rw [p2, Naive.built_pipes hb, st2.size, est.size]
    exact inv.wfp pid
  · intro pid r hrr
    rw [p2, Naive.built_pipes hb] at hrr
    unfold Store.segsOf; rw [st2.ops, est.ops]; exact inv.segs pid r hrr
  · intro pid r hrr
    rw [p2, Naive.built_pipes hb] at hrr
    unfold Store.pidOf; rw [st2.ops, est.ops]; exact inv.pid pid r hrr
  · -- the queues after the tick: their operators are PENDING or FAILED, which a tick never moves
    refine ⟨hj1.nd, fun j hj => ?_⟩
    apply jobOK_keep st2 _ (hj1.ok j hj)
    intro x hx
    obtain ⟨o, eo, ok⟩ := (hj1.ok j hj).one
    rw [eo] at hx; simp at hx; subst hx
    apply tickTargets_keep tt
    have b2 := ok.2.1
    simp only [assignable, List.mem_cons, List.not_mem_nil, or_false] at b2
    rcases b2 with e | e
    · exact Or.inl e
    · exact Or.inr (Or.inl e)

/-- the simulator's main loop for the priority scheduler -/
def loop : World → St → List Res → List (List Nat) → Except Err (World × St × List Res)
  | w, st, res, [] => .ok (w, st, res)
  | w, st, res, newP :: rest =>
    match prRound w st res newP with
    | .error e => .error e.1
    | .ok (w1, st1, dec) =>
      match w1.execTick dec.sus dec.asgs with
      | .error e => .error e.1
      | .ok (w2, res2) => loop w2 st1 res2 rest

/-- **the priority scheduler with single-operator containers drives any run to its last tick without raising** (no memory overcommit; the pipelines
arriving in one tick are distinct) -/
theorem run_single_never_raises : ∀ (arrivals : List (List Nat)) (w : World) (st : St) (res : List Res), (∀ newP ∈ arrivals, newP.Nodup) →
    PRInv w st res → ∃ w' st' res', loop w st res arrivals = .ok (w', st', res') ∧ PRInv w' st' res' := by
  intro arrivals
  induction arrivals with
  | nil => intro w st res _ inv; exact ⟨w, st, res, rfl, inv⟩
  | cons newP rest ih =>
    intro w st res hn inv
    obtain ⟨w1, st1, dec, w2, res2, h1, h2, inv2⟩ := priority_single_tick_never_raises w st res newP (hn newP (by simp)) inv
    obtain ⟨w', st', res', ho, inv'⟩ := ih w2 st1 res2 (fun x hx => hn x (List.mem_cons_of_mem _ hx)) inv2
    exact ⟨w', st', res', by unfold loop; rw [h1]; simp only; rw [h2]; exact ho, inv'⟩

end Eudoxia.Prio
