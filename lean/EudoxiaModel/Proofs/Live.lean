import EudoxiaModel.Proofs.Profile
import EudoxiaModel.Proofs.PoolInv
import EudoxiaModel.Proofs.Mem
import EudoxiaModel.Proofs.Lift
/-! Which operators a container may touch, and what it leaves them as: the footprint discipline behind
    "an operator is in at most one live container" (C02). -/
namespace Eudoxia
open OpState Extracted

/-- accepted transitions, each of them (operator, new state) satisfying `P` -/
inductive StepsP (P : Nat → OpState → Prop) : Store → Store → Prop
  | refl (w) : StepsP P w w
  | step {w w1 w2 : Store} (r : Nat) (t : OpState) : P r t → w.transition r t = .ok w1 → StepsP P w1 w2 → StepsP P w w2

theorem StepsP.trans {P : Nat → OpState → Prop} {a b c : Store} (h1 : StepsP P a b) (h2 : StepsP P b c) : StepsP P a c := by
  induction h1 with
  | refl => exact h2
  | step r t hs h _ ih => exact .step r t hs h (ih h2)

theorem StepsP.single {P : Nat → OpState → Prop} {w w1 : Store} {r : Nat} {t : OpState} (hs : P r t) (h : w.transition r t = .ok w1) : StepsP P w w1 :=
  .step r t hs h (.refl _)

theorem StepsP.mono {P Q : Nat → OpState → Prop} {a b : Store} (h : StepsP P a b) (hst : ∀ r t, P r t → Q r t) : StepsP Q a b := by
  induction h with
  | refl => exact .refl _
  | step r t hs h _ ih => exact .step r t (hst r t hs) h ih

/-- operators outside the footprint keep their state -/
theorem StepsP.frame {P : Nat → OpState → Prop} {a b : Store} (h : StepsP P a b) (o : Nat) (ho : ∀ t, ¬ P o t) : b.stOf o = a.stOf o := by
  induction h with
  | refl => rfl
  | step r t hs h _ ih =>
    rw [ih]
    exact transition_other h (fun e => ho t (e ▸ hs))

/-- a property of states that every allowed new state of `o` has is kept -/
theorem StepsP.keeps {P : Nat → OpState → Prop} {a b : Store} (h : StepsP P a b) (o : Nat) (G : OpState → Prop) (hG : ∀ t, P o t → G t)
    (h0 : G (a.stOf o)) : G (b.stOf o) := by
  induction h with
  | refl => exact h0
  | step r t hs h _ ih =>
    apply ih
    by_cases e : r = o
    · subst e
      obtain ⟨_, _, hself, _⟩ := transition_ok h
      have hb : r < _ := (transition_ok h).2.2.2
      rw [transition_self h hb]
      exact hG t hs
    · rw [transition_other h e]; exact h0

theorem StepsP.steps {P : Nat → OpState → Prop} {a b : Store} (h : StepsP P a b) : Steps a b := by
  induction h with
  | refl => exact .refl _
  | step r t _ h _ ih => exact .step r t h ih

theorem transAll_stepsP (t : OpState) : ∀ (l : List Nat) (w w' : Store), w.transAll t l = .ok w' → StepsP (fun r t' => r ∈ l ∧ t' = t) w w' := by
  intro l
  induction l with
  | nil => intro w w' h; simp [Store.transAll] at h; subst h; exact .refl _
  | cons r rs ih =>
    intro w w' h
    unfold Store.transAll at h
    split at h
    · cases h
    · rename_i w1 hw
      exact .step r t ⟨by simp, rfl⟩ hw ((ih w1 w' h).mono (fun x t' hx => ⟨List.mem_cons_of_mem _ hx.1, hx.2⟩))

/-- operators the generator position still has to deal with: all of `pos.ops`, minus the head if the head has had all its ticks -/
def posUnf (c : Ctr) : List Nat :=
  ((if c.pos.started && c.pos.opDone == c.pos.opTotal then c.pos.ops.tail else c.pos.ops).map (·.1))

/-- container-internal consistency -/
structure CtrWF (cfg : Cfg) (c : Ctr) : Prop where
  pos : PosOK cfg c
  segs : ∀ o ∈ c.pos.ops, o.2 ≠ []
  idx : c.ops.drop c.curOpIdx = posUnf c

/-- `seek` only starts operators it still has to deal with, and keeps that list -/
theorem seek_live (cfg : Cfg) (w : Store) (c : Ctr) (w' : Store) (c' : Ctr) (h : seek w cfg c = .ok (w', c'))
    (hp : PosOK cfg c) (hseg : ∀ o ∈ c.pos.ops, o.2 ≠ []) :
    posUnf c' = posUnf c ∧ StepsP (fun r t => r ∈ posUnf c ∧ t = running) w w' := by
  fun_induction seek w cfg c
  case case1 => cases h
  case case2 => cases h
  case case3 w0 c0 r allsegs rest hops hs w1 hw ih =>
    have hns : c0.pos.started = false := by simpa using hs
    have hpos : 1 ≤ tickSum (opTickTable cfg c0.cpu allsegs) := opTickTable_pos cfg c0.cpu allsegs (hseg (r, allsegs) (by rw [hops]; simp))
    obtain ⟨i1, i2⟩ := ih h (by intro _; simp only [Nat.zero_add]; exact opRem_length cfg c0.cpu allsegs) (by simpa using hseg)
    have e : posUnf { c0 with pos := { c0.pos with started := true, segs := allsegs.zip (opTickTable cfg c0.cpu allsegs), i := 0, opDone := 0,
                                                   opTotal := tickSum (opTickTable cfg c0.cpu allsegs) } } = posUnf c0 := by
      simp only [posUnf, hns, Bool.false_and, Bool.false_eq_true, ↓reduceIte, Bool.true_and]
      have : ((0 : Nat) == tickSum (opTickTable cfg c0.cpu allsegs)) = false := by
        simp only [beq_eq_false_iff_ne, ne_eq]; omega
      simp only [this, Bool.false_eq_true, ↓reduceIte]
    rw [e] at i1 i2
    refine ⟨i1, .step r running ⟨?_, rfl⟩ hw i2⟩
    simp only [posUnf, hns, Bool.false_and, Bool.false_eq_true, ↓reduceIte, hops, List.map_cons, List.mem_cons, true_or]
  case case4 w0 c0 r allsegs rest hops hs hsg ih =>
    have hst : c0.pos.started = true := by simpa using hs
    have hfin := hp hst
    rw [hsg] at hfin
    simp only [remSegs, List.length_nil, Nat.add_zero] at hfin
    obtain ⟨i1, i2⟩ := ih h (by intro hx; simp at hx) (by intro o ho; exact hseg o (by rw [hops]; exact List.mem_cons_of_mem _ ho))
    have e : posUnf { c0 with pos := { ops := rest, started := false, segs := [], i := 0, opDone := 0, opTotal := 0 } } = posUnf c0 := by
      simp only [posUnf, Bool.false_and, Bool.false_eq_true, ↓reduceIte, hst, hfin, beq_self_eq_true, Bool.and_self, hops, List.tail_cons]
    rw [e] at i1 i2
    exact ⟨i1, i2⟩
  case case5 => cases h; exact ⟨rfl, .refl _⟩
  case case6 w0 c0 r allsegs rest hops hs sg io cpuT more hsg hlt ih =>
    have hst : c0.pos.started = true := by simpa using hs
    have hdone : remSeg cfg (sg, io, cpuT) c0.pos.i = [] := remSeg_done cfg _ _ (by simpa using hlt)
    have hp' := hp hst
    rw [hsg] at hp'
    simp only [remSegs, hdone, List.nil_append] at hp'
    obtain ⟨i1, i2⟩ := ih h (by intro _; simp only; rw [remSegs_zero]; exact hp') (by simpa using hseg)
    have e : posUnf { c0 with pos := { c0.pos with segs := more, i := 0 } } = posUnf c0 := by simp only [posUnf]
    rw [e] at i1 i2
    exact ⟨i1, i2⟩


theorem unfinished_eq (c : Ctr) : c.unfinished = c.ops.drop c.curOpIdx := rfl

/-- **what one generator step does to operator states**: it starts (→ RUNNING) operators of the container's unfinished suffix and completes at
most the head of it, which then leaves the suffix; consistency is kept -/
theorem advance_live (cfg : Cfg) (w : Store) (c : Ctr) (cons : Int) (w' : Store) (c' : Ctr) (cons' : Int)
    (hf : c.frozen = false) (wf : CtrWF cfg c) (hnd : c.ops.Nodup) (h : advance cfg w c cons = .ok (w', c', cons')) :
    CtrWF cfg c' ∧ c'.ops = c.ops ∧ c'.cid = c.cid ∧
    (c'.unfinished = c.unfinished ∨ ∃ r, c.unfinished = r :: c'.unfinished ∧ w'.stOf r = completed) ∧
    StepsP (fun r t => r ∈ c.unfinished ∧ (t = running ∨ (t = completed ∧ r ∉ c'.unfinished))) w w' ∧
    (c'.completed = true → c.completed = false → c'.unfinished = []) := by
  unfold advance at h
  rw [hf] at h
  simp only [Bool.false_eq_true, ↓reduceIte] at h
  split at h
  · cases h
  · rename_i w1 c1 hs
    obtain ⟨_, hsame, r, allsegs, rest, sg, io, cpuT, more, e1, e2, e3, e4⟩ := seek_spec _ _ _ _ _ hs
    obtain ⟨_, hp1⟩ := seek_rem cfg _ _ _ _ hs wf.pos
    obtain ⟨hunf, hst1⟩ := seek_live cfg _ _ _ _ hs wf.pos wf.segs
    have hsuf := seek_ops_suffix cfg _ _ _ _ hs
    have hseg1 : ∀ o ∈ c1.pos.ops, o.2 ≠ [] := fun o ho => wf.segs o (hsuf.subset ho)
    have hops : c1.ops = c.ops := by unfold Ctr.SameButPos at hsame; rw [hsame]
    have hidx : c1.curOpIdx = c.curOpIdx := by unfold Ctr.SameButPos at hsame; rw [hsame]
    have hcid : c1.cid = c.cid := by unfold Ctr.SameButPos at hsame; rw [hsame]
    have hcomp : c1.completed = c.completed := by unfold Ctr.SameButPos at hsame; rw [hsame]
    have hcpu : c1.cpu = c.cpu := by unfold Ctr.SameButPos at hsame; rw [hsame]
    -- the head operator of c1 still has a tick to run: it is not finished
    have hpos1 := hp1 e2
    rw [e3] at hpos1
    simp only [remSegs] at hpos1
    rw [remSeg_step cfg (sg, io, cpuT) _ e4] at hpos1
    simp only [List.length_cons, List.length_append] at hpos1
    have hnf : (c1.pos.opDone == c1.pos.opTotal) = false := by simp only [beq_eq_false_iff_ne, ne_eq]; omega
    have hunf1 : posUnf c1 = r :: rest.map (·.1) := by simp only [posUnf, e2, hnf, Bool.and_false, Bool.false_eq_true, ↓reduceIte, e1, List.map_cons]
    have hU : c.unfinished = r :: rest.map (·.1) := by rw [unfinished_eq, wf.idx, ← hunf, hunf1]
    have hstU : StepsP (fun r t => r ∈ c.unfinished ∧ t = running) w w1 := by
      have := wf.idx
      rw [← unfinished_eq] at this
      rw [this]; exact hst1
    unfold runTick at h
    rw [e1, e3] at h
    simp only at h
    unfold runAt at h
    split at h
    · -- frozen: position unchanged
      simp only [Except.ok.injEq, Prod.mk.injEq] at h
      obtain ⟨rfl, hc', _⟩ := h
      have hu' : c'.unfinished = c.unfinished := by rw [← hc']; simp only [unfinished_eq, hops, hidx]
      refine ⟨⟨?_, ?_, ?_⟩, by rw [← hc']; exact hops, by rw [← hc']; exact hcid, Or.inl hu', hstU.mono (fun x t hx => ⟨hx.1, Or.inl hx.2⟩), ?_⟩
      · intro hx; rw [← hc'] at hx ⊢; exact hp1 hx
      · rw [← hc']; exact hseg1
      · rw [← hc']; simp only [hops, hidx]; rw [wf.idx, ← hunf]; rfl
      · intro hx hcc; rw [← hc'] at hx; simp only at hx; rw [hcomp, hcc] at hx; cases hx
    · split at h
      · rename_i hlast
        have hlast' : c1.pos.opDone + 1 = c1.pos.opTotal := by simpa using hlast
        split at h
        · cases h
        · rename_i w2 hw2
          -- the operator completes and leaves the suffix
          have hdrop : c.ops.drop (c.curOpIdx + 1) = rest.map (·.1) := by
            rw [← List.drop_drop, ← unfinished_eq, hU]; rfl
          have hrnot : r ∉ rest.map (·.1) := by
            have hsub : (c.ops.drop c.curOpIdx).Nodup := (List.drop_sublist _ _).nodup hnd
            rw [← unfinished_eq, hU] at hsub
            exact (List.nodup_cons.mp hsub).1
          have key : ∀ (c2 : Ctr), c2.ops = c1.ops → c2.curOpIdx = c1.curOpIdx + 1 → c2.cid = c1.cid → c2.cpu = c1.cpu →
              c2.pos = { c1.pos with i := c1.pos.i + 1, opDone := c1.pos.opDone + 1 } →
              CtrWF cfg c2 ∧ c2.ops = c.ops ∧ c2.cid = c.cid ∧ (c2.unfinished = c.unfinished ∨ ∃ r, c.unfinished = r :: c2.unfinished ∧ w2.stOf r = completed) ∧
              StepsP (fun r t => r ∈ c.unfinished ∧ (t = running ∨ (t = completed ∧ r ∉ c2.unfinished))) w w2 := by
            intro c2 h1 h2 h3 h4 h5
            have hu2 : c2.unfinished = rest.map (·.1) := by rw [unfinished_eq, h1, h2, hops, hidx, hdrop]
            refine ⟨⟨?_, ?_, ?_⟩, by rw [h1, hops], by rw [h3, hcid], Or.inr ⟨r, by rw [hU, hu2], transition_self hw2 (transition_ok hw2).2.2.2⟩, ?_⟩
            · intro _
              simp only [h5, e3, remSegs, List.length_append]
              omega
            · rw [h5]; exact hseg1
            · rw [← unfinished_eq, hu2]
              simp only [posUnf, h5, e2, hlast', beq_self_eq_true, Bool.and_self, ↓reduceIte, e1, List.tail_cons]
            · refine (hstU.mono (fun x t hx => ⟨hx.1, Or.inl hx.2⟩)).trans (.single ⟨by rw [hU]; simp, Or.inr ⟨rfl, ?_⟩⟩ hw2)
              rw [hu2]; exact hrnot
          split at h
          · rename_i hrest
            simp only [Except.ok.injEq, Prod.mk.injEq] at h
            obtain ⟨rfl, hc', _⟩ := h
            obtain ⟨k1, k2, k3, k4, k5⟩ := key c' (by rw [← hc']) (by rw [← hc']) (by rw [← hc']) (by rw [← hc']) (by rw [← hc'])
            refine ⟨k1, k2, k3, k4, k5, fun _ _ => ?_⟩
            rw [unfinished_eq, k2]
            have : c'.curOpIdx = c.curOpIdx + 1 := by rw [← hc']; simp only [hidx]
            rw [this, hdrop]
            have hr : rest = [] := by simpa using hrest
            rw [hr]; rfl
          · simp only [Except.ok.injEq, Prod.mk.injEq] at h
            obtain ⟨rfl, hc', _⟩ := h
            obtain ⟨k1, k2, k3, k4, k5⟩ := key c' (by rw [← hc']) (by rw [← hc']) (by rw [← hc']) (by rw [← hc']) (by rw [← hc'])
            refine ⟨k1, k2, k3, k4, k5, fun hx hcc => ?_⟩
            rw [← hc'] at hx; simp only at hx; rw [hcomp, hcc] at hx; cases hx
      · rename_i hlast
        have hlast' : c1.pos.opDone + 1 ≠ c1.pos.opTotal := by simpa using hlast
        simp only [Except.ok.injEq, Prod.mk.injEq] at h
        obtain ⟨rfl, hc', _⟩ := h
        have hu' : c'.unfinished = c.unfinished := by rw [← hc']; simp only [unfinished_eq, hops, hidx]
        refine ⟨⟨?_, ?_, ?_⟩, by rw [← hc']; exact hops, by rw [← hc']; exact hcid, Or.inl hu', hstU.mono (fun x t hx => ⟨hx.1, Or.inl hx.2⟩), ?_⟩
        · intro _
          rw [← hc']
          simp only [e3, remSegs, List.length_append]
          omega
        · rw [← hc']; exact hseg1
        · rw [← unfinished_eq, hu', hU, ← hc']
          have : (c1.pos.opDone + 1 == c1.pos.opTotal) = false := by simpa using hlast'
          simp only [posUnf, e2, this, Bool.and_false, Bool.false_eq_true, ↓reduceIte, e1, List.map_cons]
        · intro hx hcc; rw [← hc'] at hx; simp only at hx; rw [hcomp, hcc] at hx; cases hx


/-- the states an operator may be in while it belongs to the unfinished suffix of a live container -/
def Busy (t : OpState) : Prop := t = assigned ∨ t = running ∨ t = suspending

/-- `Container.tick` -/
theorem tick_live (cfg : Cfg) (w : Store) (c : Ctr) (cons : Int) (w' : Store) (c' : Ctr) (cons' : Int)
    (wf : CtrWF cfg c) (hnd : c.ops.Nodup) (hfc : c.completed = false → c.frozen = false) (h : c.tick cfg w cons = .ok (w', c', cons')) :
    CtrWF cfg c' ∧ c'.ops = c.ops ∧ c'.cid = c.cid ∧
    (c'.unfinished = c.unfinished ∨ ∃ r, c.unfinished = r :: c'.unfinished ∧ w'.stOf r = completed) ∧
    StepsP (fun r t => r ∈ c.unfinished ∧ (t = running ∨ (t = completed ∧ r ∉ c'.unfinished))) w w' ∧
    (c'.completed = true → c.completed = false → c'.unfinished = []) := by
  unfold Ctr.tick at h
  split at h
  · rename_i hc
    simp only [Except.ok.injEq, Prod.mk.injEq] at h
    obtain ⟨rfl, rfl, _⟩ := h
    exact ⟨wf, rfl, rfl, Or.inl rfl, .refl _, fun _ hcc => by rw [hcc] at hc; cases hc⟩
  · rename_i hc
    split at h
    · cases h
    · rename_i w1 c1 cons1 hadv
      simp only [Except.ok.injEq, Prod.mk.injEq] at h
      obtain ⟨rfl, hc', _⟩ := h
      obtain ⟨a1, a2, a3, a4, a5, a6⟩ := advance_live cfg w c cons w1 c1 cons1 (hfc (by simpa using hc)) wf hnd hadv
      have hu : c'.unfinished = c1.unfinished := by rw [← hc']; rfl
      rw [hu]
      refine ⟨⟨?_, ?_, ?_⟩, by rw [← hc']; exact a2, by rw [← hc']; exact a3, a4, a5, fun hx hcc => a6 (by rw [← hc'] at hx; exact hx) hcc⟩
      · intro hx; rw [← hc'] at hx ⊢; exact a1.pos hx
      · rw [← hc']; exact a1.segs
      · rw [← hc']; exact a1.idx

/-- `Container.kill`: every operator of the unfinished suffix becomes FAILED, nothing else moves -/
theorem kill_live (w : Store) (c : Ctr) (cons : Int) (w' : Store) (c' : Ctr) (cons' : Int) (h : c.kill w cons = .ok (w', c', cons')) :
    c'.ops = c.ops ∧ c'.cid = c.cid ∧ c'.completed = true ∧ c'.unfinished = c.unfinished ∧
    StepsP (fun r t => r ∈ c.unfinished ∧ t = failed) w w' := by
  unfold Ctr.kill at h
  split at h
  · cases h
  · rename_i w1 hw
    simp only [Ctr.setMem, Except.ok.injEq, Prod.mk.injEq] at h
    obtain ⟨rfl, hc', _⟩ := h
    refine ⟨by rw [← hc'], by rw [← hc'], by rw [← hc'], by rw [← hc']; rfl, transAll_stepsP failed _ _ _ hw⟩

/-- `Container.suspend_container`: the unfinished suffix becomes SUSPENDING -/
theorem suspend_live (cfg : Cfg) (w : Store) (c : Ctr) (w' : Store) (c' : Ctr) (h : c.suspend cfg w = .ok (w', c')) :
    c' = { c with suspLeft := c'.suspLeft } ∧ StepsP (fun r t => r ∈ c.unfinished ∧ t = suspending) w w' := by
  unfold Ctr.suspend at h
  split at h
  · cases h
  · rename_i w1 hw
    simp only [Except.ok.injEq, Prod.mk.injEq] at h
    obtain ⟨rfl, hc'⟩ := h
    exact ⟨by rw [← hc'], transAll_stepsP suspending _ _ _ hw⟩

/-- `Container.suspend_container_tick`: at the end of the write-out the unfinished suffix becomes PENDING; before, nothing moves -/
theorem suspendTick_live (w : Store) (c : Ctr) (w' : Store) (c' : Ctr) (h : c.suspendTick w = .ok (w', c')) :
    c' = { c with suspLeft := c.suspLeft - 1 } ∧ StepsP (fun r t => r ∈ c.unfinished ∧ t = pending ∧ c'.suspLeft = 0) w w' := by
  unfold Ctr.suspendTick at h
  split at h
  · rename_i hz
    split at h
    · cases h
    · rename_i w1 hw
      simp only [Except.ok.injEq, Prod.mk.injEq] at h
      obtain ⟨rfl, hc'⟩ := h
      have hz' : c.suspLeft - 1 = 0 := by simpa using hz
      refine ⟨by rw [← hc'], (transAll_stepsP pending _ _ _ hw).mono (fun r t hx => ⟨hx.1, hx.2, by rw [← hc']; exact hz'⟩)⟩
  · simp only [Except.ok.injEq, Prod.mk.injEq] at h
    obtain ⟨rfl, hc'⟩ := h
    exact ⟨by rw [← hc'], .refl _⟩


/-! ### lists of containers -/

/-- operators owned by the not-yet-finished containers of a list -/
def own (l : List Ctr) : List Nat := (l.filter (fun c => !c.completed)).flatMap Ctr.unfinished

def ownOf (c : Ctr) : List Nat := if c.completed then [] else c.unfinished

theorem own_cons (c : Ctr) (l : List Ctr) : own (c :: l) = ownOf c ++ own l := by
  unfold own ownOf
  by_cases h : c.completed = true
  · simp [List.filter_cons, h]
  · have : c.completed = false := by simpa using h
    simp [List.filter_cons, this]

theorem own_nil : own [] = [] := rfl

theorem own_append (a b : List Ctr) : own (a ++ b) = own a ++ own b := by simp [own]

theorem mem_own {l : List Ctr} {c : Ctr} {o : Nat} (hc : c ∈ l) (hn : c.completed = false) (ho : o ∈ c.unfinished) : o ∈ own l := by
  unfold own
  exact List.mem_flatMap.mpr ⟨c, List.mem_filter.mpr ⟨hc, by simp [hn]⟩, ho⟩

structure CtrInv (cfg : Cfg) (c : Ctr) : Prop where
  wf : CtrWF cfg c
  nd : c.ops.Nodup

def BusyAll (w : Store) (l : List Ctr) : Prop := ∀ c ∈ l, c.completed = false → ∀ o ∈ c.unfinished, Busy (w.stOf o)

theorem busyAll_frame {w w' : Store} {l : List Ctr} (hb : BusyAll w l) (hf : ∀ o ∈ own l, w'.stOf o = w.stOf o) : BusyAll w' l := by
  intro c hc hn o ho
  rw [hf o (mem_own hc hn ho)]
  exact hb c hc hn o ho

/-- the unfinished suffix of a ticked container is the old one or its tail -/
theorem ownOf_sublist_of_tick {c c' : Ctr} (hu : c'.unfinished = c.unfinished ∨ ∃ r, c.unfinished = r :: c'.unfinished)
    (hcomp : c.completed = true → c'.completed = true) : (ownOf c').Sublist (ownOf c) := by
  unfold ownOf
  by_cases h' : c'.completed = true
  · simp [h']
  · have hn' : c'.completed = false := by simpa using h'
    have hn : c.completed = false := by
      cases hcc : c.completed with
      | false => rfl
      | true => rw [hcomp hcc] at hn'; cases hn'
    simp only [hn', hn, Bool.false_eq_true, ↓reduceIte]
    rcases hu with e | ⟨r, e⟩
    · rw [e]; exact List.Sublist.refl _
    · rw [e]; exact List.sublist_cons_self _ _

theorem tickAll_live (cfg : Cfg) : ∀ (l : List Ctr) (w : Store) (cons : Int) (w' : Store) (l' : List Ctr) (cons' : Int),
    tickAll cfg w l cons = .ok (w', l', cons') →
    (∀ c ∈ l, CtrInv cfg c ∧ (c.completed = false → c.frozen = false)) → (own l).Nodup → BusyAll w l →
    (∀ c' ∈ l', CtrInv cfg c') ∧ (own l').Sublist (own l) ∧ (∀ o, o ∉ own l → w'.stOf o = w.stOf o) ∧ BusyAll w' l' := by
  intro l
  induction l with
  | nil =>
    intro w cons w' l' cons' h _ _ _
    simp only [tickAll, Except.ok.injEq, Prod.mk.injEq] at h
    obtain ⟨rfl, rfl, _⟩ := h
    exact ⟨by simp, List.Sublist.refl _, fun _ _ => rfl, by intro c hc; simp at hc⟩
  | cons c cs ih =>
    intro w cons w' l' cons' h hinv hnd hbusy
    unfold tickAll at h
    split at h
    · cases h
    · rename_i w1 c1 cons1 ht
      split at h
      · cases h
      · rename_i w2 cs2 cons2 hrest
        simp only [Except.ok.injEq, Prod.mk.injEq] at h
        obtain ⟨rfl, rfl, _⟩ := h
        obtain ⟨ci, hfc⟩ := hinv c (by simp)
        obtain ⟨t1, t2, t3, t4, t5, t6⟩ := tick_live cfg w c cons w1 c1 cons1 ci.wf ci.nd hfc ht
        rw [own_cons] at hnd
        have hdisj : ∀ o, o ∈ ownOf c → o ∉ own cs := fun o ho hx => (List.nodup_append.mp hnd).2.2 o ho o hx rfl
        -- a finished container is not ticked
        have hcomp : c.completed = true → c1 = c ∧ w1 = w := by
          intro hcc
          unfold Ctr.tick at ht
          simp only [hcc, ↓reduceIte, Except.ok.injEq, Prod.mk.injEq] at ht
          exact ⟨ht.2.1.symm, ht.1.symm⟩
        have hfoot : ∀ o, o ∉ ownOf c → w1.stOf o = w.stOf o := by
          intro o ho
          by_cases hcc : c.completed = true
          · rw [(hcomp hcc).2]
          · have hn : c.completed = false := by simpa using hcc
            apply t5.frame
            intro t hx
            apply ho
            simp only [ownOf, hn, Bool.false_eq_true, ↓reduceIte]
            exact hx.1
        have hb1 : BusyAll w1 cs := busyAll_frame (fun d hd => hbusy d (List.mem_cons_of_mem _ hd)) (fun o ho => hfoot o (fun hx => hdisj o hx ho))
        obtain ⟨i1, i2, i3, i4⟩ := ih w1 cons1 w2 cs2 cons2 hrest (fun d hd => hinv d (List.mem_cons_of_mem _ hd)) (List.nodup_append.mp hnd).2.1 hb1
        have hsub1 : (ownOf c1).Sublist (ownOf c) := ownOf_sublist_of_tick (t4.imp id (fun ⟨r, e, _⟩ => ⟨r, e⟩)) (fun hcc => by rw [(hcomp hcc).1]; exact hcc)
        refine ⟨?_, ?_, ?_, ?_⟩
        · intro d hd
          rcases List.mem_cons.mp hd with rfl | hd
          · exact ⟨t1, by rw [t2]; exact ci.nd⟩
          · exact i1 d hd
        · rw [own_cons, own_cons]; exact List.Sublist.append hsub1 i2
        · intro o ho
          rw [own_cons, List.mem_append, not_or] at ho
          rw [i3 o ho.2, hfoot o ho.1]
        · intro d hd hn o ho
          rcases List.mem_cons.mp hd with rfl | hd
          · have hnc : c.completed = false := by
              cases hcc : c.completed with
              | false => rfl
              | true => rw [(hcomp hcc).1] at hn; rw [hcc] at hn; cases hn
            have hoc : o ∈ c.unfinished := by
              rcases t4 with e | ⟨r, e, _⟩
              · rw [← e]; exact ho
              · rw [e]; exact List.mem_cons_of_mem _ ho
            have hown : o ∈ ownOf c := by simp only [ownOf, hnc, Bool.false_eq_true, ↓reduceIte]; exact hoc
            rw [i3 o (hdisj o hown)]
            refine t5.keeps o Busy ?_ (hbusy c (by simp) hnc o hoc)
            intro t hx
            rcases hx.2 with e | ⟨_, e⟩
            · rw [e]; exact Or.inr (Or.inl rfl)
            · exact absurd ho e
          · exact i4 d hd hn o ho


/-! ### a generic sequential pass over a list of containers -/

/-- what one container's step may do: shrink what it owns, touch only what it owned, keep the rest of what it owns busy.
`alive` tells which resulting containers stay in the list afterwards (a suspension that has ended leaves it) -/
structure StepOK (alive : Ctr → Bool) (w : Store) (c : Ctr) (w' : Store) (c' : Ctr) : Prop where
  sub : (if alive c' then ownOf c' else []).Sublist (ownOf c)
  frame : ∀ o, o ∉ ownOf c → w'.stOf o = w.stOf o
  keep : ∀ o ∈ (if alive c' then ownOf c' else []), Busy (w.stOf o) → Busy (w'.stOf o)

inductive ListStep (alive : Ctr → Bool) : Store → List Ctr → Store → List Ctr → Prop
  | nil (w) : ListStep alive w [] w []
  | cons {w w1 w2 : Store} {c c1 : Ctr} {cs cs2 : List Ctr} : StepOK alive w c w1 c1 → ListStep alive w1 cs w2 cs2 → ListStep alive w (c :: cs) w2 (c1 :: cs2)

def allAlive : Ctr → Bool := fun _ => true

theorem StepOK.id (w : Store) (c : Ctr) : StepOK allAlive w c w c := ⟨List.Sublist.refl _, fun _ _ => rfl, fun _ _ h => h⟩

theorem mem_ownOf_busy {w : Store} {l : List Ctr} (hb : BusyAll w l) {c : Ctr} (hc : c ∈ l) {o : Nat} (ho : o ∈ ownOf c) : Busy (w.stOf o) := by
  unfold ownOf at ho
  by_cases hcc : c.completed = true
  · simp [hcc] at ho
  · have hn : c.completed = false := by simpa using hcc
    simp only [hn, Bool.false_eq_true, ↓reduceIte] at ho
    exact hb c hc hn o ho

theorem busyAll_of_ownOf {w : Store} {l : List Ctr} (h : ∀ c ∈ l, ∀ o ∈ ownOf c, Busy (w.stOf o)) : BusyAll w l := by
  intro c hc hn o ho
  exact h c hc o (by simp only [ownOf, hn, Bool.false_eq_true, ↓reduceIte]; exact ho)

theorem own_filter_cons (alive : Ctr → Bool) (c : Ctr) (l : List Ctr) :
    own ((c :: l).filter alive) = (if alive c then ownOf c else []) ++ own (l.filter alive) := by
  by_cases h : alive c = true
  · simp [List.filter_cons, h, own_cons]
  · have : alive c = false := by simpa using h
    simp [List.filter_cons, this]

theorem listStep_live {alive : Ctr → Bool} {w w' : Store} {l l' : List Ctr} (h : ListStep alive w l w' l') :
    (own l).Nodup → BusyAll w l →
    (own (l'.filter alive)).Sublist (own l) ∧ (∀ o, o ∉ own l → w'.stOf o = w.stOf o) ∧ BusyAll w' (l'.filter alive) := by
  induction h with
  | nil w => intro _ _; exact ⟨List.Sublist.refl _, fun _ _ => rfl, by intro c hc; simp at hc⟩
  | @cons w w1 w2 c c1 cs cs2 hs _ ih =>
    intro hnd hb
    rw [own_cons] at hnd
    have hdisj : ∀ o, o ∈ ownOf c → o ∉ own cs := fun o ho hx => (List.nodup_append.mp hnd).2.2 o ho o hx rfl
    have hb1 : BusyAll w1 cs := busyAll_frame (fun d hd => hb d (List.mem_cons_of_mem _ hd)) (fun o ho => hs.frame o (fun hx => hdisj o hx ho))
    obtain ⟨i1, i2, i3⟩ := ih (List.nodup_append.mp hnd).2.1 hb1
    refine ⟨by rw [own_filter_cons, own_cons]; exact List.Sublist.append hs.sub i1, ?_, ?_⟩
    · intro o ho
      rw [own_cons, List.mem_append, not_or] at ho
      rw [i2 o ho.2, hs.frame o ho.1]
    · apply busyAll_of_ownOf
      intro d hd o ho
      obtain ⟨hd1, hd2⟩ := List.mem_filter.mp hd
      rcases List.mem_cons.mp hd1 with rfl | hd1
      · have ho' : o ∈ (if alive d then ownOf d else []) := by simp only [hd2, ↓reduceIte]; exact ho
        have hoc : o ∈ ownOf c := hs.sub.subset ho'
        rw [i2 o (hdisj o hoc)]
        exact hs.keep o ho' (mem_ownOf_busy hb (by simp) hoc)
      · exact mem_ownOf_busy i3 (List.mem_filter.mpr ⟨hd1, hd2⟩) ho

theorem filter_allAlive (l : List Ctr) : l.filter allAlive = l := by simp [allAlive]

/-- killing a container that is not finished -/
theorem kill_stepOK {w w' : Store} {c c' : Ctr} {cons cons' : Int} (hn : c.completed = false) (h : c.kill w cons = .ok (w', c', cons')) :
    StepOK allAlive w c w' c' := by
  obtain ⟨_, _, k3, _, k5⟩ := kill_live w c cons w' c' cons' h
  refine ⟨by simp [ownOf, k3, allAlive], ?_, by simp [ownOf, k3, allAlive]⟩
  intro o ho
  apply k5.frame
  intro t hx
  apply ho
  simp only [ownOf, hn, Bool.false_eq_true, ↓reduceIte]
  exact hx.1

theorem killedCtr_inv {cfg : Cfg} {c : Ctr} (h : CtrInv cfg c) : CtrInv cfg (killedCtr c) :=
  ⟨⟨fun hx => h.wf.pos hx, h.wf.segs, h.wf.idx⟩, h.nd⟩

theorem killIndividual_live (cfg : Cfg) : ∀ (l : List Ctr) (w : Store) (cons : Int) (w' : Store) (l' : List Ctr) (cons' : Int),
    killIndividual w l cons = .ok (w', l', cons') → (∀ c ∈ l, CtrInv cfg c ∧ (c.completed = true → c.mem ≤ c.ram)) →
    ListStep allAlive w l w' l' ∧ (∀ c' ∈ l', CtrInv cfg c') := by
  intro l
  induction l with
  | nil =>
    intro w cons w' l' cons' h _
    simp only [killIndividual, Except.ok.injEq, Prod.mk.injEq] at h
    obtain ⟨rfl, rfl, _⟩ := h
    exact ⟨.nil _, by simp⟩
  | cons c cs ih =>
    intro w cons w' l' cons' h hinv
    obtain ⟨ci, hcm⟩ := hinv c (by simp)
    unfold killIndividual at h
    split at h
    · rename_i hgt
      have hn : c.completed = false := by
        cases hcc : c.completed with
        | false => rfl
        | true => have := hcm hcc; omega
      split at h
      · cases h
      · rename_i w1 c1 cons1 hk
        split at h
        · cases h
        · rename_i w2 cs2 cons2 hrest
          simp only [Except.ok.injEq, Prod.mk.injEq] at h
          obtain ⟨rfl, rfl, _⟩ := h
          obtain ⟨i1, i2⟩ := ih w1 cons1 w2 cs2 cons2 hrest (fun d hd => hinv d (List.mem_cons_of_mem _ hd))
          refine ⟨.cons (kill_stepOK hn hk) i1, ?_⟩
          intro d hd
          rcases List.mem_cons.mp hd with rfl | hd
          · rw [(kill_eq hk).1]; exact killedCtr_inv ci
          · exact i2 d hd
    · split at h
      · cases h
      · rename_i w2 cs2 cons2 hrest
        simp only [Except.ok.injEq, Prod.mk.injEq] at h
        obtain ⟨rfl, rfl, _⟩ := h
        obtain ⟨i1, i2⟩ := ih w cons w2 cs2 cons2 hrest (fun d hd => hinv d (List.mem_cons_of_mem _ hd))
        refine ⟨.cons (StepOK.id _ _) i1, ?_⟩
        intro d hd
        rcases List.mem_cons.mp hd with rfl | hd
        · exact ci
        · exact i2 d hd


/-- a suspending container's write-out tick -/
theorem suspendTick_stepOK {w w' : Store} {c c' : Ctr} (hn : c.completed = false)
    (h : c.suspendTick w = .ok (w', c')) :
    StepOK (fun c => !(c.suspLeft == 0)) w c w' c' := by
  obtain ⟨e, st⟩ := suspendTick_live w c w' c' h
  have hown : ownOf c' = ownOf c := by rw [e]; rfl
  refine ⟨?_, ?_, ?_⟩
  · split
    · rw [hown]; exact List.Sublist.refl _
    · exact List.nil_sublist _
  · intro o ho
    apply st.frame
    intro t hx
    apply ho
    simp only [ownOf, hn, Bool.false_eq_true, ↓reduceIte]
    exact hx.1
  · intro o ho hbusy
    split at ho
    · rename_i halive
      have hne : c'.suspLeft ≠ 0 := by simpa using halive
      -- the write-out has not ended: nothing moved
      have : w'.stOf o = w.stOf o := by
        apply st.frame
        intro t hx
        exact hne hx.2.2
      rw [this]; exact hbusy
    · simp at ho

theorem suspTickList_live (cfg : Cfg) : ∀ (l : List Ctr) (w : Store) (w' : Store) (l' : List Ctr),
    suspTickList w l = .ok (w', l') → (∀ c ∈ l, CtrInv cfg c ∧ c.completed = false) →
    ListStep (fun c => !(c.suspLeft == 0)) w l w' l' ∧ (∀ c' ∈ l', CtrInv cfg c' ∧ c'.completed = false) := by
  intro l
  induction l with
  | nil =>
    intro w w' l' h _
    simp only [suspTickList, Except.ok.injEq, Prod.mk.injEq] at h
    obtain ⟨rfl, rfl⟩ := h
    exact ⟨.nil _, by simp⟩
  | cons c cs ih =>
    intro w w' l' h hinv
    obtain ⟨ci, hn⟩ := hinv c (by simp)
    unfold suspTickList at h
    split at h
    · cases h
    · rename_i w1 c1 hk
      split at h
      · cases h
      · rename_i w2 cs2 hrest
        simp only [Except.ok.injEq, Prod.mk.injEq] at h
        obtain ⟨rfl, rfl⟩ := h
        have hs := suspendTick_stepOK hn hk
        obtain ⟨e, _⟩ := suspendTick_live w c w1 c1 hk
        obtain ⟨i1, i2⟩ := ih w1 w2 cs2 hrest (fun d hd => hinv d (List.mem_cons_of_mem _ hd))
        refine ⟨.cons hs i1, ?_⟩
        intro d hd
        rcases List.mem_cons.mp hd with rfl | hd
        · rw [e]; exact ⟨⟨⟨fun hx => ci.wf.pos hx, ci.wf.segs, ci.wf.idx⟩, ci.nd⟩, hn⟩
        · exact i2 d hd

/-! ### the pool-level OOM killer: victims are killed one after the other, the list is rewritten by container number -/

theorem own_map_kill (P : Ctr → Bool) : ∀ (l : List Ctr), (own (l.map (fun x => if P x then killedCtr x else x))).Sublist (own l) := by
  intro l
  induction l with
  | nil => exact List.Sublist.refl _
  | cons x xs ih =>
    simp only [List.map_cons, own_cons]
    refine List.Sublist.append ?_ ih
    split
    · simp [ownOf, killedCtr]
    · exact List.Sublist.refl _

theorem own_disjoint : ∀ (l : List Ctr) (x v : Ctr), (own l).Nodup → (cids l).Nodup → x ∈ l → v ∈ l → x.cid ≠ v.cid →
    ∀ o ∈ ownOf x, o ∉ ownOf v := by
  intro l
  induction l with
  | nil => intro x v _ _ hx; simp at hx
  | cons y ys ih =>
    intro x v hnd hcn hx hv hne o hox hov
    rw [own_cons] at hnd
    simp only [cids_cons, List.nodup_cons] at hcn
    have hin : ∀ (z : Ctr), z ∈ ys → ∀ o ∈ ownOf z, o ∈ own ys := by
      intro z hz o ho
      unfold ownOf at ho
      by_cases hzc : z.completed = true
      · simp [hzc] at ho
      · have : z.completed = false := by simpa using hzc
        simp only [this, Bool.false_eq_true, ↓reduceIte] at ho
        exact mem_own hz this ho
    rcases List.mem_cons.mp hx with rfl | hx' <;> rcases List.mem_cons.mp hv with rfl | hv'
    · exact hne rfl
    · exact (List.nodup_append.mp hnd).2.2 o hox o (hin v hv' o hov) rfl
    · exact (List.nodup_append.mp hnd).2.2 o hov o (hin x hx' o hox) rfl
    · exact ih x v (List.nodup_append.mp hnd).2.1 hcn.2 hx' hv' hne o hox hov

theorem killVictims_live (cfg : Cfg) (capR : Nat) : ∀ (vs : List Ctr) (w : Store) (act : List Ctr) (cons : Int) (w' : Store) (act' : List Ctr) (cons' : Int),
    (cids act).Nodup → (cids vs).Nodup → (∀ v ∈ vs, v ∈ act ∧ v.completed = false) →
    killVictims w capR act cons vs = .ok (w', act', cons') →
    (own act).Nodup → BusyAll w act → (∀ c ∈ act, CtrInv cfg c) →
    (own act').Sublist (own act) ∧ (∀ o, o ∉ own act → w'.stOf o = w.stOf o) ∧ BusyAll w' act' ∧ (∀ c ∈ act', CtrInv cfg c) ∧ cids act' = cids act := by
  intro vs
  induction vs with
  | nil =>
    intro w act cons w' act' cons' _ _ _ h hnd hb hinv
    simp only [killVictims, Except.ok.injEq, Prod.mk.injEq] at h
    obtain ⟨rfl, rfl, _⟩ := h
    exact ⟨List.Sublist.refl _, fun _ _ => rfl, hb, hinv, rfl⟩
  | cons v vs ih =>
    intro w act cons w' act' cons' hcn hvnd hsub h hnd hb hinv
    unfold killVictims at h
    split at h
    · simp only [Except.ok.injEq, Prod.mk.injEq] at h
      obtain ⟨rfl, rfl, _⟩ := h
      exact ⟨List.Sublist.refl _, fun _ _ => rfl, hb, hinv, rfl⟩
    · split at h
      · cases h
      · rename_i w1 v1 cons1 hk
        obtain ⟨e1, _⟩ := kill_eq hk
        obtain ⟨hv, hvn⟩ := hsub v (by simp)
        simp only [cids_cons, List.nodup_cons] at hvnd
        rw [e1, replaceCtr_eq_map act v hcn hv] at h
        have hs := kill_stepOK hvn hk
        have hcids1 : cids (act.map (fun x => if x.cid == v.cid then killedCtr x else x)) = cids act := by
          unfold cids; rw [List.map_map]; apply List.map_congr_left; intro x _
          simp only [Function.comp]; split <;> rfl
        have hsub1 : ∀ u ∈ vs, u ∈ act.map (fun x => if x.cid == v.cid then killedCtr x else x) ∧ u.completed = false := by
          intro u hu
          have hne : u.cid ≠ v.cid := by
            intro e; apply hvnd.1; rw [← e]; exact List.mem_map_of_mem hu
          refine ⟨List.mem_map.mpr ⟨u, (hsub u (by simp [hu])).1, by simp [hne]⟩, (hsub u (by simp [hu])).2⟩
        have hownv : ∀ o, o ∈ ownOf v → o ∈ own act := by
          intro o ho
          simp only [ownOf, hvn, Bool.false_eq_true, ↓reduceIte] at ho
          exact mem_own hv hvn ho
        have hsl := own_map_kill (fun x => x.cid == v.cid) act
        have hnd1 : (own (act.map (fun x => if x.cid == v.cid then killedCtr x else x))).Nodup := hsl.nodup hnd
        have hb1 : BusyAll w1 (act.map (fun x => if x.cid == v.cid then killedCtr x else x)) := by
          intro d hd hdn o ho
          obtain ⟨x, hx, rfl⟩ := List.mem_map.mp hd
          by_cases hxv : (x.cid == v.cid) = true
          · simp only [hxv, ↓reduceIte, killedCtr] at hdn; cases hdn
          · have hxf : (x.cid == v.cid) = false := by simpa using hxv
            simp only [hxf, Bool.false_eq_true, ↓reduceIte] at hdn ho ⊢
            have hne : x.cid ≠ v.cid := by simpa using hxv
            have hox : o ∈ ownOf x := by simp only [ownOf, hdn, Bool.false_eq_true, ↓reduceIte]; exact ho
            rw [hs.frame o (own_disjoint act x v hnd hcn hx hv hne o hox)]
            exact hb x hx hdn o ho
        have hinv1 : ∀ c ∈ act.map (fun x => if x.cid == v.cid then killedCtr x else x), CtrInv cfg c := by
          intro d hd
          obtain ⟨x, hx, rfl⟩ := List.mem_map.mp hd
          split
          · exact killedCtr_inv (hinv x hx)
          · exact hinv x hx
        obtain ⟨i1, i2, i3, i4, i5⟩ := ih w1 _ cons1 w' act' cons' (by rw [hcids1]; exact hcn) hvnd.2 hsub1 h hnd1 hb1 hinv1
        refine ⟨i1.trans hsl, ?_, i3, i4, by rw [i5, hcids1]⟩
        intro o ho
        rw [i2 o (fun hx => ho (hsl.subset hx)), hs.frame o (fun hx => ho (hownv o hx))]


/-- `_run_out_of_memory_killer` as a whole -/
theorem oomKiller_live (cfg : Cfg) {w w' : Store} {p p' : Pool} (hcn : (cids p.active).Nodup)
    (hinv : ∀ c ∈ p.active, CtrInv cfg c ∧ (c.completed = true → c.mem ≤ c.ram))
    (hnd : (own p.active).Nodup) (hb : BusyAll w p.active) (h : oomKiller w p = .ok (w', p')) :
    (own p'.active).Sublist (own p.active) ∧ (∀ o, o ∉ own p.active → w'.stOf o = w.stOf o) ∧ BusyAll w' p'.active ∧
    (∀ c ∈ p'.active, CtrInv cfg c) ∧ p'.suspending = p.suspending := by
  unfold oomKiller at h
  split at h
  · cases h
  · rename_i w1 act1 cons1 hk
    obtain ⟨ls, linv⟩ := killIndividual_live cfg _ _ _ _ _ _ hk hinv
    obtain ⟨s1, s2, s3⟩ := listStep_live ls hnd hb
    rw [filter_allAlive] at s1 s3
    have hk1 := killIndividual_keys _ _ _ _ _ _ hk
    have hcn1 : (cids act1).Nodup := by rw [cids_keys hk1]; exact hcn
    split at h
    · have e := ok_snd2 h
      have e1 := ok_fst h
      rw [← e, ← e1]
      exact ⟨s1, s2, s3, linv, rfl⟩
    · split at h
      · cases h
      · rename_i w2 act2 cons2 hv
        have hperm := SortP.sortDesc_perm scoreGe (oomCandidates act1)
        have hsub : ∀ v ∈ sortDesc (oomCandidates act1), v ∈ act1 ∧ v.completed = false := by
          intro v hv'
          have := List.mem_filter.mp (mem_sortDesc hv')
          have h2 := this.2
          simp only [Bool.and_eq_true, Bool.not_eq_true', decide_eq_true_eq] at h2
          exact ⟨this.1, h2.1⟩
        have hvnd : (cids (sortDesc (oomCandidates act1))).Nodup := by
          have hp : (cids (sortDesc (oomCandidates act1))).Perm (cids (oomCandidates act1)) := List.Perm.map _ hperm
          exact hp.nodup_iff.mpr ((cids_filter_sublist act1 _).nodup hcn1)
        obtain ⟨v1, v2, v3, v4, _⟩ := killVictims_live cfg p.capR _ _ _ _ _ _ _ hcn1 hvnd hsub hv (s1.nodup hnd) s3 linv
        have e := ok_snd2 h
        have e1 := ok_fst h
        rw [← e, ← e1]
        refine ⟨v1.trans s1, ?_, v3, v4, rfl⟩
        intro o ho
        rw [v2 o (fun hx => ho (s1.subset hx)), s2 o ho]


/-! ### pools -/

theorem nodup_iff_count_le_one (l : List Nat) : l.Nodup ↔ ∀ a, l.count a ≤ 1 := by
  induction l with
  | nil => simp
  | cons b l ih =>
    rw [List.nodup_cons, ih]
    constructor
    · rintro ⟨hb, hl⟩ a
      rw [List.count_cons]
      by_cases e : b = a
      · subst e
        have : l.count b = 0 := List.count_eq_zero.mpr hb
        simp [this]
      · have : (b == a) = false := by simpa using e
        simp only [this, Bool.false_eq_true, ↓reduceIte, Nat.add_zero]
        exact hl a
    · intro h
      constructor
      · intro hb
        have := h b
        rw [List.count_cons] at this
        have h1 : 1 ≤ l.count b := List.one_le_count_iff.mpr hb
        simp at this
        omega
      · intro a
        have := h a
        rw [List.count_cons] at this
        omega

/-- `l'` owns no more than `l`, counted with multiplicity -/
def Shrinks (l' l : List Nat) : Prop := ∀ o, l'.count o ≤ l.count o

theorem Shrinks.refl (l : List Nat) : Shrinks l l := fun _ => Nat.le_refl _
theorem Shrinks.trans {a b c : List Nat} (h1 : Shrinks a b) (h2 : Shrinks b c) : Shrinks a c := fun o => Nat.le_trans (h1 o) (h2 o)
theorem Shrinks.of_sublist {a b : List Nat} (h : a.Sublist b) : Shrinks a b := fun o => h.count_le o
theorem Shrinks.of_perm {a b : List Nat} (h : a.Perm b) : Shrinks a b := fun o => Nat.le_of_eq (h.count_eq o)
theorem Shrinks.nodup {a b : List Nat} (h : Shrinks a b) (hb : b.Nodup) : a.Nodup :=
  (nodup_iff_count_le_one a).mpr (fun o => Nat.le_trans (h o) ((nodup_iff_count_le_one b).mp hb o))
theorem Shrinks.mem {a b : List Nat} (h : Shrinks a b) {o : Nat} (ho : o ∈ a) : o ∈ b :=
  List.one_le_count_iff.mp (Nat.le_trans (List.one_le_count_iff.mpr ho) (h o))
theorem Shrinks.append {a b c d : List Nat} (h1 : Shrinks a b) (h2 : Shrinks c d) : Shrinks (a ++ c) (b ++ d) := by
  intro o; rw [List.count_append, List.count_append]; have := h1 o; have := h2 o; omega

/-- what a pool's live containers own -/
def ownP (p : Pool) : List Nat := own (p.active ++ p.suspending)

theorem own_remove : ∀ (l : List Ctr) (k : Nat) (c : Ctr), findCtr l k = some c → (cids l).Nodup →
    (ownOf c ++ own (l.filter (·.cid != k))).Perm (own l) := by
  intro l
  induction l with
  | nil => intro k c h; simp [findCtr] at h
  | cons x xs ih =>
    intro k c h hnd
    simp only [cids_cons, List.nodup_cons] at hnd
    unfold findCtr at h
    by_cases hx : (x.cid == k) = true
    · simp only [List.find?_cons, hx] at h
      cases h
      have hk : x.cid = k := by simpa using hx
      have hfil : xs.filter (·.cid != k) = xs := by
        apply List.filter_eq_self.mpr
        intro y hy
        simp only [bne_iff_ne, ne_eq]
        intro e
        apply hnd.1
        rw [hk, ← e]
        exact List.mem_map_of_mem hy
      have hne : (x.cid != k) = false := by simp [hk]
      rw [List.filter_cons, hne]
      simp only [Bool.false_eq_true, ↓reduceIte, hfil, own_cons]
      exact List.Perm.refl _
    · have hxf : (x.cid == k) = false := by simpa using hx
      simp only [List.find?_cons, hxf] at h
      have hne : (x.cid != k) = true := by simp only [bne, hxf, Bool.not_false]
      rw [List.filter_cons, hne]
      simp only [↓reduceIte, own_cons]
      have := ih k c h hnd.2
      exact (List.perm_append_comm_assoc _ _ _).trans (List.Perm.append_left _ this)


/-- the ownership part of the pool invariant, at a tick boundary -/
structure PoolLive (cfg : Cfg) (w : Store) (p : Pool) : Prop where
  inv : ∀ c ∈ p.active ++ p.suspending, CtrInv cfg c
  nc : ∀ c ∈ p.active ++ p.suspending, c.completed = false
  nd : (ownP p).Nodup
  busy : BusyAll w (p.active ++ p.suspending)

theorem suspended_ctr_inv {cfg : Cfg} {c c' : Ctr} (e : c' = { c with suspLeft := c'.suspLeft }) (h : CtrInv cfg c) : CtrInv cfg c' := by
  rw [e]; exact ⟨⟨fun hx => h.wf.pos hx, h.wf.segs, h.wf.idx⟩, h.nd⟩

theorem doSuspends_live (cfg : Cfg) : ∀ (l : List Nat) (w : Store) (p : Pool) (n : Nat) (w' : Store) (p' : Pool),
    doSuspends cfg w p l = .ok (w', p') → PoolInv p n → PoolLive cfg w p →
    PoolLive cfg w' p' ∧ Shrinks (ownP p') (ownP p) ∧ (∀ o, o ∉ ownP p → w'.stOf o = w.stOf o) := by
  intro l
  induction l with
  | nil =>
    intro w p n w' p' h _ hl
    simp only [doSuspends, Except.ok.injEq, Prod.mk.injEq] at h
    obtain ⟨rfl, rfl⟩ := h
    exact ⟨hl, Shrinks.refl _, fun _ _ => rfl⟩
  | cons k ks ih =>
    intro w p n w' p' h pinv hl
    unfold doSuspends at h
    split at h
    · cases h
    · rename_i c hfind
      split at h
      · cases h
      · rename_i w1 c1 hsus
        obtain ⟨e1, st⟩ := suspend_live cfg w c w1 c1 hsus
        have hcn : (cids p.active).Nodup := (List.nodup_append.mp pinv.nodup).1
        obtain ⟨hck, _, _, _⟩ := find_remove p.active k c hfind hcn
        have hcmem : c ∈ p.active := List.mem_of_find?_eq_some hfind
        have hcn' : c.completed = false := hl.nc c (List.mem_append_left _ hcmem)
        have hown1 : ownOf c1 = ownOf c := by rw [e1]; rfl
        -- the pool after moving `c` to the suspending list
        have hperm : (ownP { p with suspending := p.suspending ++ [c1], active := p.active.filter (·.cid != k) }).Perm (ownP p) := by
          simp only [ownP, own_append, own_cons, own_nil, List.append_nil, hown1]
          have h1 := own_remove p.active k c hfind hcn
          -- own filter ++ (own susp ++ ownOf c)  ~  own active ++ own susp
          have h2 : (own (p.active.filter (·.cid != k)) ++ (own p.suspending ++ ownOf c)).Perm ((ownOf c ++ own (p.active.filter (·.cid != k))) ++ own p.suspending) := by
            rw [List.append_assoc]
            exact (List.Perm.append_left _ List.perm_append_comm).trans (List.perm_append_comm_assoc _ _ _)
          exact h2.trans (List.Perm.append_right _ h1)
        have hfoot : ∀ o, o ∉ ownOf c → w1.stOf o = w.stOf o := by
          intro o ho
          apply st.frame
          intro t hx
          apply ho
          simp only [ownOf, hcn', Bool.false_eq_true, ↓reduceIte]
          exact hx.1
        have hcnall : (cids (p.active ++ p.suspending)).Nodup := by rw [cids_append]; exact pinv.nodup
        have hl1 : PoolLive cfg w1 { p with suspending := p.suspending ++ [c1], active := p.active.filter (·.cid != k) } := by
          refine ⟨?_, ?_, hperm.nodup_iff.mpr hl.nd, ?_⟩
          · intro d hd
            simp only [List.mem_append, List.mem_filter, List.mem_singleton] at hd
            rcases hd with ⟨hd, _⟩ | hd | rfl
            · exact hl.inv d (List.mem_append_left _ hd)
            · exact hl.inv d (List.mem_append_right _ hd)
            · exact suspended_ctr_inv e1 (hl.inv c (List.mem_append_left _ hcmem))
          · intro d hd
            simp only [List.mem_append, List.mem_filter, List.mem_singleton] at hd
            rcases hd with ⟨hd, _⟩ | hd | rfl
            · exact hl.nc d (List.mem_append_left _ hd)
            · exact hl.nc d (List.mem_append_right _ hd)
            · rw [e1]; exact hcn'
          · intro d hd hdn o ho
            simp only [List.mem_append, List.mem_filter, List.mem_singleton] at hd
            have other : ∀ (x : Ctr), x ∈ p.active ++ p.suspending → x.cid ≠ c.cid → x.completed = false → o ∈ x.unfinished → Busy (w1.stOf o) := by
              intro x hx hne hxn hox
              have : o ∈ ownOf x := by simp only [ownOf, hxn, Bool.false_eq_true, ↓reduceIte]; exact hox
              rw [hfoot o (own_disjoint _ x c hl.nd hcnall hx (List.mem_append_left _ hcmem) hne o this)]
              exact hl.busy x hx hxn o hox
            rcases hd with ⟨hd, hne⟩ | hd | rfl
            · exact other d (List.mem_append_left _ hd) (by rw [hck]; simpa using hne) hdn ho
            · refine other d (List.mem_append_right _ hd) ?_ hdn ho
              intro e
              have := (List.nodup_append.mp pinv.nodup).2.2 c.cid (List.mem_map_of_mem hcmem) d.cid (List.mem_map_of_mem hd)
              exact this e.symm
            · have hoc : o ∈ c.unfinished := by rw [e1] at ho; exact ho
              refine st.keeps o Busy ?_ (hl.busy c (List.mem_append_left _ hcmem) hcn' o hoc)
              intro t hx; rw [hx.2]; exact Or.inr (Or.inr rfl)
        have pinv1 : PoolInv { p with suspending := p.suspending ++ [c1], active := p.active.filter (·.cid != k) } n := by
          have := doSuspends_inv cfg [k] w p n w1 { p with suspending := p.suspending ++ [c1], active := p.active.filter (·.cid != k) } pinv
            (by simp only [doSuspends, hfind, hsus])
          exact this.1
        obtain ⟨i1, i2, i3⟩ := ih w1 _ n w' p' h pinv1 hl1
        refine ⟨i1, i2.trans (Shrinks.of_perm hperm), ?_⟩
        intro o ho
        rw [i3 o (fun hx => ho (hperm.mem_iff.mp hx)), hfoot o]
        intro hx
        apply ho
        simp only [ownP, own_append, List.mem_append]
        left
        simp only [ownOf, hcn', Bool.false_eq_true, ↓reduceIte] at hx
        exact mem_own hcmem hcn' hx


theorem mkCtr_inv (cfg : Cfg) (w : Store) (cid : Nat) (a : Asg) (hnd : a.ops.Nodup) (hseg : ∀ r ∈ a.ops, w.segsOf r ≠ []) :
    CtrInv cfg (mkCtr w cid a) ∧ (mkCtr w cid a).completed = false ∧ ownOf (mkCtr w cid a) = a.ops := by
  refine ⟨⟨⟨fun h => by simp [mkCtr, mkPos] at h, ?_, ?_⟩, hnd⟩, rfl, rfl⟩
  · intro o ho
    simp only [mkCtr, mkPos, List.mem_map] at ho
    obtain ⟨r, hr, rfl⟩ := ho
    exact hseg r hr
  · simp [mkCtr, mkPos, posUnf, Function.comp_def]

/-- the pool after creating container `c` for assignment `a` (the recursive step of `startAll`) -/
def Pool.plus (p : Pool) (a : Asg) (c : Ctr) : Pool :=
  { p with availC := p.availC - a.cpu, availR := p.availR - a.ram, active := p.active ++ [c], created := p.created + 1 }

/-- creating the containers of a batch of assignments whose operators are ASSIGNED, pairwise distinct and owned by nobody yet -/
theorem startAll_live (cfg : Cfg) (w : Store) : ∀ (as : List Asg) (p : Pool) (n : Nat) (p' : Pool) (n' : Nat),
    startAll cfg w p n as = .ok (p', n') → PoolLive cfg w p →
    (∀ a ∈ as, a.ops.Nodup ∧ (∀ r ∈ a.ops, w.segsOf r ≠ [] ∧ Busy (w.stOf r))) →
    (ownP p ++ as.flatMap (·.ops)).Nodup →
    PoolLive cfg w p' ∧ (ownP p').Perm (ownP p ++ as.flatMap (·.ops)) := by
  intro as
  induction as with
  | nil =>
    intro p n p' n' h hl _ _
    simp only [startAll, Except.ok.injEq, Prod.mk.injEq] at h
    obtain ⟨rfl, _⟩ := h
    exact ⟨hl, by simp⟩
  | cons a as ih =>
    intro p n p' n' h hl ha hnd
    unfold startAll at h
    split at h
    · cases h
    · obtain ⟨an, aseg⟩ := ha a (by simp)
      obtain ⟨m1, m2, m3⟩ := mkCtr_inv cfg w n a an (fun r hr => (aseg r hr).1)
      have hperm1 : (ownP (Pool.plus p a (mkCtr w n a))).Perm (ownP p ++ a.ops) := by
        simp only [ownP, Pool.plus, own_append, own_cons, own_nil, List.append_nil, m3]
        rw [List.append_assoc, List.append_assoc]
        exact List.Perm.append_left _ List.perm_append_comm
      have hnd0 : (ownP p ++ a.ops).Nodup := by
        have : (ownP p ++ a.ops).Sublist (ownP p ++ (a :: as).flatMap (·.ops)) := by
          simp only [List.flatMap_cons]
          exact List.Sublist.append (List.Sublist.refl _) (List.sublist_append_left _ _)
        exact this.nodup hnd
      have hl1 : PoolLive cfg w (Pool.plus p a (mkCtr w n a)) := by
        refine ⟨?_, ?_, hperm1.nodup_iff.mpr hnd0, ?_⟩
        · intro d hd
          simp only [Pool.plus, List.mem_append, List.mem_singleton] at hd
          rcases hd with (hd | rfl) | hd
          · exact hl.inv d (List.mem_append_left _ hd)
          · exact m1
          · exact hl.inv d (List.mem_append_right _ hd)
        · intro d hd
          simp only [Pool.plus, List.mem_append, List.mem_singleton] at hd
          rcases hd with (hd | rfl) | hd
          · exact hl.nc d (List.mem_append_left _ hd)
          · exact m2
          · exact hl.nc d (List.mem_append_right _ hd)
        · intro d hd hdn o ho
          simp only [Pool.plus, List.mem_append, List.mem_singleton] at hd
          rcases hd with (hd | rfl) | hd
          · exact hl.busy d (List.mem_append_left _ hd) hdn o ho
          · exact (aseg o (by simpa [mkCtr, Ctr.unfinished] using ho)).2
          · exact hl.busy d (List.mem_append_right _ hd) hdn o ho
      have hnd1 : (ownP (Pool.plus p a (mkCtr w n a)) ++ as.flatMap (·.ops)).Nodup := by
        have hp : (ownP (Pool.plus p a (mkCtr w n a)) ++ as.flatMap (·.ops)).Perm
                  (ownP p ++ (a :: as).flatMap (·.ops)) := by
          simp only [List.flatMap_cons]
          rw [← List.append_assoc]
          exact List.Perm.append_right _ hperm1
        exact hp.nodup_iff.mpr hnd
      obtain ⟨i1, i2⟩ := ih (Pool.plus p a (mkCtr w n a)) (n + 1) p' n' h hl1 (fun b hb => ha b (List.mem_cons_of_mem _ hb)) hnd1
      refine ⟨i1, i2.trans ?_⟩
      simp only [List.flatMap_cons]
      rw [← List.append_assoc]
      exact List.Perm.append_right _ hperm1


theorem own_filter_live (l : List Ctr) : own (l.filter (fun c => !c.completed)) = own l := by
  unfold own; rw [List.filter_filter]; simp

/-- **phases 3–6 of a pool tick keep the ownership invariant**, touch only operators the pool's live containers own, and leave it owning no more -/
theorem poolRun_live {cfg : Cfg} {w w' : Store} {p p' : Pool} {n : Nat} {res : List Res} (pinv : PoolInv p n) (m : MemOK p)
    (hl : PoolLive cfg w p) (h : poolRun cfg w p = .ok (w', p', res)) :
    PoolLive cfg w' p' ∧ Shrinks (ownP p') (ownP p) ∧ (∀ o, o ∉ ownP p → w'.stOf o = w.stOf o) := by
  unfold poolRun at h
  split at h
  · cases h
  · rename_i w3 p3 h3
    obtain ⟨pinv3, _, _, _, _, act3⟩ := suspTickAll_inv pinv h3
    -- phase 3
    have hnd0 := hl.nd
    simp only [ownP, own_append] at hnd0
    have hdisj : ∀ o, o ∈ own p.active → o ∉ own p.suspending := fun o ho hx => (List.nodup_append.mp hnd0).2.2 o ho o hx rfl
    unfold suspTickAll at h3
    split at h3
    · cases h3
    · rename_i w3' l3 hl3
      simp only [Except.ok.injEq, Prod.mk.injEq] at h3
      obtain ⟨rfl, hp3⟩ := h3
      obtain ⟨ls, linv⟩ := suspTickList_live cfg _ _ _ _ hl3 (fun c hc => ⟨hl.inv c (List.mem_append_right _ hc), hl.nc c (List.mem_append_right _ hc)⟩)
      obtain ⟨s1, s2, s3⟩ := listStep_live ls (List.nodup_append.mp hnd0).2.1 (fun c hc => hl.busy c (List.mem_append_right _ hc))
      have hsus3 : p3.suspending = l3.filter (fun c => !(c.suspLeft == 0)) := by rw [← hp3]
      have hb3a : BusyAll w3' p.active := busyAll_frame (fun c hc => hl.busy c (List.mem_append_left _ hc)) (fun o ho => s2 o (hdisj o ho))
      split at h
      · cases h
      · rename_i w4 act4 cons4 h4
        rw [act3] at h4
        obtain ⟨t1, t2, t3, t4⟩ := tickAll_live cfg _ _ _ _ _ _ h4
          (fun c hc => ⟨hl.inv c (List.mem_append_left _ hc), fun _ => (m.ok c hc).2.1⟩) (List.nodup_append.mp hnd0).1 hb3a
        obtain ⟨_, tk⟩ := tickAll_mem _ _ _ _ _ _ _ m.ok h4
        have hk4 := tickAll_keys _ _ _ _ _ _ _ h4
        have hcn4 : (cids act4).Nodup := by rw [cids_keys hk4]; exact (List.nodup_append.mp pinv.nodup).1
        split at h
        · cases h
        · rename_i w5 p5 h5
          obtain ⟨k1, k2, k3, k4, k5⟩ := oomKiller_live cfg (p := { p3 with active := act4, consumed := cons4 }) hcn4
            (fun c hc => ⟨t1 c hc, fun hcc => by have := (tk c hc).1 hcc; omega⟩) (t2.nodup (List.nodup_append.mp hnd0).1) t4 h5
          simp only at k1 k2 k3 k4 k5
          simp only [Except.ok.injEq, Prod.mk.injEq] at h
          obtain ⟨rfl, hp', _⟩ := h
          obtain ⟨f1, f2, _⟩ := collect_fields p5
          have hact' : p'.active = p5.active.filter (fun c => !c.completed) := by rw [← hp']; exact f1
          have hsus' : p'.suspending = p3.suspending := by rw [← hp', f2, k5]
          -- ownership after the tick
          have hsubA : (own p'.active).Sublist (own p.active) := by
            rw [hact', own_filter_live]; exact (k1.trans t2)
          have hsubS : (own p'.suspending).Sublist (own p.suspending) := by rw [hsus', hsus3]; exact s1
          have hframe : ∀ o, o ∉ ownP p → w5.stOf o = w.stOf o := by
            intro o ho
            simp only [ownP, own_append, List.mem_append, not_or] at ho
            rw [k2 o (fun hx => ho.1 (t2.subset hx)), t3 o ho.1, s2 o ho.2]
          refine ⟨⟨?_, ?_, ?_, ?_⟩, ?_, hframe⟩
          · intro c hc
            rcases List.mem_append.mp hc with hc | hc
            · rw [hact'] at hc; exact k4 c (List.mem_filter.mp hc).1
            · rw [hsus', hsus3] at hc; exact (linv c (List.mem_filter.mp hc).1).1
          · intro c hc
            rcases List.mem_append.mp hc with hc | hc
            · rw [hact'] at hc; simpa using (List.mem_filter.mp hc).2
            · rw [hsus', hsus3] at hc; exact (linv c (List.mem_filter.mp hc).1).2
          · simp only [ownP, own_append]
            exact (List.Sublist.append hsubA hsubS).nodup hnd0
          · intro c hc hcn o ho
            rcases List.mem_append.mp hc with hc | hc
            · rw [hact'] at hc
              exact k3 c (List.mem_filter.mp hc).1 hcn o ho
            · rw [hsus', hsus3] at hc
              have hos : o ∈ own p.suspending := s1.subset (mem_own hc hcn ho)
              have hoa : o ∉ own p.active := fun hx => hdisj o hx hos
              rw [k2 o (fun hx => hoa (t2.subset hx)), t3 o hoa]
              exact s3 c hc hcn o ho
          · simp only [ownP, own_append]
            exact Shrinks.of_sublist (List.Sublist.append hsubA hsubS)


/-- assignments a pool is about to start: operators ASSIGNED, pairwise distinct, with segments -/
def AsgsOK (w : Store) (as : List Asg) : Prop :=
  ∀ a ∈ as, a.ops.Nodup ∧ (∀ r ∈ a.ops, w.segsOf r ≠ [] ∧ w.stOf r = assigned)

theorem stepsP_segs {P : Nat → OpState → Prop} {a b : Store} (h : StepsP P a b) (r : Nat) : b.segsOf r = a.segsOf r := by
  have := h.steps.ops
  unfold Store.segsOf
  rw [this]

/-- **a whole pool tick keeps the ownership invariant.**  The pool's live containers together with the assignments it is handed own pairwise
distinct operators before; afterwards the pool's live containers own a subset of those, still pairwise distinct and all busy, and no operator
outside that set has changed state. -/
theorem poolTick_live {cfg : Cfg} {w w' : Store} {p p' : Pool} {n n' : Nat} {cm : Cmds} {res : List Res}
    (g : PoolGoodMem cfg p n) (hl : PoolLive cfg w p) (ha : AsgsOK w cm.asgs) (hnd : (ownP p ++ cm.asgs.flatMap (·.ops)).Nodup)
    (h : poolTick cfg w p n cm = .ok (w', p', n', res)) :
    PoolLive cfg w' p' ∧ Shrinks (ownP p') (ownP p ++ cm.asgs.flatMap (·.ops)) ∧
    (∀ o, o ∉ ownP p ++ cm.asgs.flatMap (·.ops) → w'.stOf o = w.stOf o) := by
  unfold poolTick at h
  split at h
  · cases h
  · split at h
    · cases h
    · rename_i w1 p1 hs
      have m1 := susPhase_mem g.2 hs
      obtain ⟨g1, _, _⟩ := susPhase_inv g.1 hs
      -- phase 1 on ownership
      have ph1 : PoolLive cfg w1 p1 ∧ Shrinks (ownP p1) (ownP p) ∧ (∀ o, o ∉ ownP p → w1.stOf o = w.stOf o) ∧ (∀ r, w1.segsOf r = w.segsOf r) := by
        split at hs
        · simp only [Except.ok.injEq, Prod.mk.injEq] at hs
          obtain ⟨rfl, rfl⟩ := hs
          exact ⟨hl, Shrinks.refl _, fun _ _ => rfl, fun _ => rfl⟩
        · cases hd : doSuspends cfg w p cm.susp with
          | error e => simp [hd, Except.map] at hs
          | ok v =>
            obtain ⟨w2, p2⟩ := v
            simp only [hd, Except.map, Except.ok.injEq, Prod.mk.injEq] at hs
            obtain ⟨rfl, rfl⟩ := hs
            obtain ⟨d1, d2, d3⟩ := doSuspends_live cfg _ _ _ n _ _ hd g.1.1 hl
            refine ⟨⟨d1.inv, d1.nc, d1.nd, d1.busy⟩, d2, d3, ?_⟩
            intro r
            have := (doSuspends_steps cfg _ _ _ _ _ hd).ops
            unfold Store.segsOf; rw [this]
      obtain ⟨l1, sh1, fr1, sg1⟩ := ph1
      split at h
      · cases h
      · split at h
        · cases h
        · rename_i p2 n2 hst
          have m2 := (startAll_mem cfg w1 cm.asgs p1 n m1).1 _ _ hst
          obtain ⟨i2, _⟩ := (startAll_inv cfg w1 cm.asgs p1 n g1.1).1 _ _ hst
          have hdisjA : ∀ o ∈ cm.asgs.flatMap (·.ops), o ∉ ownP p := fun o ho hx => (List.nodup_append.mp hnd).2.2 o hx o ho rfl
          have ha1 : ∀ a ∈ cm.asgs, a.ops.Nodup ∧ (∀ r ∈ a.ops, w1.segsOf r ≠ [] ∧ Busy (w1.stOf r)) := by
            intro a haa
            obtain ⟨x1, x2⟩ := ha a haa
            refine ⟨x1, fun r hr => ⟨by rw [sg1]; exact (x2 r hr).1, ?_⟩⟩
            rw [fr1 r (hdisjA r (List.mem_flatMap.mpr ⟨a, haa, hr⟩)), (x2 r hr).2]
            exact Or.inl rfl
          have hnd1 : (ownP p1 ++ cm.asgs.flatMap (·.ops)).Nodup := by
            exact (Shrinks.append sh1 (Shrinks.refl _)).nodup hnd
          obtain ⟨l2, pm2⟩ := startAll_live cfg w1 cm.asgs p1 n p2 n2 hst l1 ha1 hnd1
          split at h
          · cases h
          · rename_i w6 p6 res6 hr
            simp only [Except.ok.injEq, Prod.mk.injEq] at h
            obtain ⟨rfl, rfl, _, _⟩ := h
            obtain ⟨r1, r2, r3⟩ := poolRun_live i2 m2 l2 hr
            have sh2 : Shrinks (ownP p2) (ownP p ++ cm.asgs.flatMap (·.ops)) :=
              (Shrinks.of_perm pm2).trans (Shrinks.append sh1 (Shrinks.refl _))
            refine ⟨r1, r2.trans sh2, ?_⟩
            intro o ho
            rw [r3 o (fun hx => ho (sh2.mem hx)), fr1 o (fun hx => ho (List.mem_append_left _ hx))]


/-! ### all pools of the executor -/

def opsOf (as : List Asg) : List Nat := as.flatMap (·.ops)

/-- assignments whose pool has not been ticked yet when pool `i` is about to be -/
def pendFor (asgs : List Asg) (i : Nat) : List Asg := asgs.filter (fun a => decide (i ≤ a.pool))

theorem count_pend_split (asgs : List Asg) (i o : Nat) :
    (opsOf (pendFor asgs i)).count o = (opsOf (asgs.filter (·.pool == i))).count o + (opsOf (pendFor asgs (i + 1))).count o := by
  induction asgs with
  | nil => simp [opsOf, pendFor]
  | cons a as ih =>
    simp only [opsOf, pendFor, List.filter_cons] at ih ⊢
    by_cases h1 : a.pool = i
    · have e1 : decide (i ≤ a.pool) = true := by simp; omega
      have e2 : (a.pool == i) = true := by simpa using h1
      have e3 : decide (i + 1 ≤ a.pool) = false := by simp; omega
      simp only [e1, e2, e3, ↓reduceIte, List.flatMap_cons, List.count_append, Bool.false_eq_true]
      omega
    · have e2 : (a.pool == i) = false := by simpa using h1
      by_cases h2 : i ≤ a.pool
      · have e1 : decide (i ≤ a.pool) = true := by simpa using h2
        have e3 : decide (i + 1 ≤ a.pool) = true := by simp; omega
        simp only [e1, e2, e3, ↓reduceIte, List.flatMap_cons, List.count_append, Bool.false_eq_true]
        omega
      · have e1 : decide (i ≤ a.pool) = false := by simpa using h2
        have e3 : decide (i + 1 ≤ a.pool) = false := by simp; omega
        simp only [e1, e2, e3, ↓reduceIte, Bool.false_eq_true]
        exact ih

theorem count_le_flatMap {α : Type} (f : α → List Nat) (l : List α) (q : α) (hq : q ∈ l) (o : Nat) : (f q).count o ≤ (l.flatMap f).count o := by
  induction l with
  | nil => simp at hq
  | cons x xs ih =>
    rw [List.flatMap_cons, List.count_append]
    rcases List.mem_cons.mp hq with rfl | hq
    · omega
    · have := ih hq; omega

/-- the loop invariant of `execPools` -/
structure PoolsLive (cfg : Cfg) (asgs : List Asg) (s : Store) (n : Nat) (done todo : List Pool) : Prop where
  pools : ∀ p ∈ done ++ todo, PoolGoodMem cfg p n ∧ PoolLive cfg s p
  nd : ((done ++ todo).flatMap ownP ++ opsOf (pendFor asgs done.length)).Nodup
  pend : AsgsOK s (pendFor asgs done.length)

theorem poolLive_frame {cfg : Cfg} {s s1 : Store} {q : Pool} (h : PoolLive cfg s q) (hf : ∀ o ∈ ownP q, s1.stOf o = s.stOf o) : PoolLive cfg s1 q :=
  ⟨h.inv, h.nc, h.nd, busyAll_frame h.busy hf⟩

/-- what the head pool of the loop is about to be handed: assignments that are fine, on operators nobody owns yet -/
theorem poolsLive_head {cfg : Cfg} {sus : List (Nat × Nat)} {asgs : List Asg} {s : Store} {n : Nat} {done rest : List Pool} {p : Pool}
    (hJ : PoolsLive cfg asgs s n done (p :: rest)) :
    (ownP p ++ (cmdsFor done.length sus asgs).asgs.flatMap (·.ops)).Nodup ∧ AsgsOK s (cmdsFor done.length sus asgs).asgs ∧
    (∀ a ∈ (cmdsFor done.length sus asgs).asgs, a ∈ pendFor asgs done.length) := by
  have hcm : (cmdsFor done.length sus asgs).asgs = asgs.filter (·.pool == done.length) := rfl
  have hglob := (nodup_iff_count_le_one _).mp hJ.nd
  have hsubp : ∀ a ∈ asgs.filter (·.pool == done.length), a ∈ pendFor asgs done.length := by
    intro a ha
    obtain ⟨ha1, ha2⟩ := List.mem_filter.mp ha
    have hpe : a.pool = done.length := by simpa using ha2
    exact List.mem_filter.mpr ⟨ha1, by simp only [decide_eq_true_eq]; omega⟩
  refine ⟨?_, ?_, by rw [hcm]; exact hsubp⟩
  · rw [hcm]
    apply (nodup_iff_count_le_one _).mpr
    intro o
    have := hglob o
    simp only [List.flatMap_append, List.flatMap_cons, List.count_append, count_pend_split asgs done.length o] at this
    show (ownP p ++ opsOf (asgs.filter (·.pool == done.length))).count o ≤ 1
    simp only [List.count_append]
    omega
  · rw [hcm]
    intro a ha
    exact hJ.pend a (hsubp a ha)

/-- one iteration of the loop over pools: the invariant is kept, and operators owned by the other pools or still pending are not touched -/
theorem poolsLive_step {cfg : Cfg} {sus : List (Nat × Nat)} {asgs : List Asg} {s s1 : Store} {n n1 : Nat} {done rest : List Pool} {p p1 : Pool} {r : List Res}
    (hJ : PoolsLive cfg asgs s n done (p :: rest)) (hp : poolTick cfg s p n (cmdsFor done.length sus asgs) = .ok (s1, p1, n1, r)) :
    PoolsLive cfg asgs s1 n1 (done ++ [p1]) rest ∧ n ≤ n1 ∧
    (∀ o, (done.flatMap ownP).count o + (rest.flatMap ownP).count o + (opsOf (pendFor asgs (done.length + 1))).count o ≥ 1 → s1.stOf o = s.stOf o) := by
  obtain ⟨gp, lp⟩ := hJ.pools p (by simp)
  have hcm : (cmdsFor done.length sus asgs).asgs = asgs.filter (·.pool == done.length) := rfl
  have hglob := (nodup_iff_count_le_one _).mp hJ.nd
  -- counts in the global list
  have hcount : ∀ o, (done.flatMap ownP).count o + (ownP p).count o + (rest.flatMap ownP).count o +
      ((opsOf (asgs.filter (·.pool == done.length))).count o + (opsOf (pendFor asgs (done.length + 1))).count o) ≤ 1 := by
    intro o
    have := hglob o
    simp only [List.flatMap_append, List.flatMap_cons, List.count_append, count_pend_split asgs done.length o] at this
    omega
  have hnd : (ownP p ++ (cmdsFor done.length sus asgs).asgs.flatMap (·.ops)).Nodup := by
    rw [hcm]
    apply (nodup_iff_count_le_one _).mpr
    intro o
    have := hcount o
    show (ownP p ++ opsOf (asgs.filter (·.pool == done.length))).count o ≤ 1
    simp only [List.count_append] at this ⊢
    omega
  have hapend : AsgsOK s (cmdsFor done.length sus asgs).asgs := by
    rw [hcm]
    intro a ha
    obtain ⟨ha1, ha2⟩ := List.mem_filter.mp ha
    have hpe : a.pool = done.length := by simpa using ha2
    exact hJ.pend a (List.mem_filter.mpr ⟨ha1, by simp only [decide_eq_true_eq]; omega⟩)
  obtain ⟨l1, sh1', fr1'⟩ := poolTick_live gp lp hapend hnd hp
  have sh1 : Shrinks (ownP p1) (ownP p ++ opsOf (asgs.filter (·.pool == done.length))) := sh1'
  have fr1 : ∀ o, o ∉ ownP p ++ opsOf (asgs.filter (·.pool == done.length)) → s1.stOf o = s.stOf o := fr1'
  obtain ⟨g1, hn1⟩ := poolGoodMem_tick.ok _ _ _ _ _ _ _ _ _ gp hp
  have hsegs : ∀ r, s1.segsOf r = s.segsOf r := by
    intro r
    have := (poolTick_steps_ok hp).ops
    unfold Store.segsOf; rw [this]
  -- operators owned elsewhere are outside the footprint of this pool's tick
  have houtside : ∀ o, (done.flatMap ownP).count o + (rest.flatMap ownP).count o + (opsOf (pendFor asgs (done.length + 1))).count o ≥ 1 →
      s1.stOf o = s.stOf o := by
    intro o ho
    apply fr1
    intro hx
    have h1 : 1 ≤ (ownP p ++ opsOf (asgs.filter (·.pool == done.length))).count o := List.one_le_count_iff.mpr hx
    have := hcount o
    simp only [List.count_append] at h1 this
    omega
  refine ⟨?_, hn1, houtside⟩
  refine ⟨?_, ?_, ?_⟩
  · intro q hq
    have hq' : q ∈ done ∨ q = p1 ∨ q ∈ rest := by simpa [List.mem_append, or_assoc] using hq
    rcases hq' with hq' | rfl | hq'
    · obtain ⟨gq, lq⟩ := hJ.pools q (by simp [hq'])
      refine ⟨poolGoodMem_tick.mono _ _ _ _ gq hn1, poolLive_frame lq ?_⟩
      intro o ho
      apply houtside
      have := count_le_flatMap ownP done q hq' o
      have : 1 ≤ (ownP q).count o := List.one_le_count_iff.mpr ho
      omega
    · exact ⟨g1, l1⟩
    · obtain ⟨gq, lq⟩ := hJ.pools q (by simp [hq'])
      refine ⟨poolGoodMem_tick.mono _ _ _ _ gq hn1, poolLive_frame lq ?_⟩
      intro o ho
      apply houtside
      have := count_le_flatMap ownP rest q hq' o
      have : 1 ≤ (ownP q).count o := List.one_le_count_iff.mpr ho
      omega
  · apply (nodup_iff_count_le_one _).mpr
    intro o
    have := hcount o
    have hs := sh1 o
    simp only [List.length_append, List.length_cons, List.length_nil, List.flatMap_append, List.flatMap_cons, List.flatMap_nil, List.append_nil,
      List.count_append, Nat.zero_add] at this hs ⊢
    omega
  · simp only [List.length_append, List.length_cons, List.length_nil]
    intro a ha
    obtain ⟨ha1, ha2⟩ := List.mem_filter.mp ha
    have hle : done.length + 1 ≤ a.pool := by simpa using ha2
    obtain ⟨x1, x2⟩ := hJ.pend a (List.mem_filter.mpr ⟨ha1, by simp only [decide_eq_true_eq]; omega⟩)
    refine ⟨x1, fun r hr => ⟨by rw [hsegs]; exact (x2 r hr).1, ?_⟩⟩
    rw [houtside r ?_]
    · exact (x2 r hr).2
    · have : 1 ≤ (opsOf (pendFor asgs (done.length + 1))).count r := by
        apply List.one_le_count_iff.mpr
        exact List.mem_flatMap.mpr ⟨a, ha, hr⟩
      omega


theorem execPools_live (cfg : Cfg) (sus : List (Nat × Nat)) (asgs : List Asg) :
    ∀ (todo : List Pool) (s : Store) (n : Nat) (done : List Pool) (res : List Res) (s' : Store) (ps : List Pool) (n' : Nat) (res' : List Res),
    PoolsLive cfg asgs s n done todo → execPools cfg sus asgs s n done todo res = .ok (s', ps, n', res') →
    PoolsLive cfg asgs s' n' ps [] := by
  intro todo
  induction todo with
  | nil =>
    intro s n done res s' ps n' res' hJ h
    simp only [execPools, Except.ok.injEq, Prod.mk.injEq] at h
    obtain ⟨rfl, rfl, rfl, _⟩ := h
    exact hJ
  | cons p rest ih =>
    intro s n done res s' ps n' res' hJ h
    unfold execPools at h
    split at h
    · cases h
    · cases h
    · rename_i s1 p1 n1 r hp
      exact ih s1 n1 (done ++ [p1]) (res ++ r) s' ps n' res' (poolsLive_step hJ hp).1 h

end Eudoxia
