import EudoxiaModel.Model.Exec
/-! Effect discipline: operator states change only through accepted `transition`s (`Steps`);
    status-level invariants are proved for one transition and lifted through `Steps`. -/
namespace Eudoxia
open Extracted OpState

theorem stOf_setSt_ne (s : Store) (r r' : Nat) (t : OpState) (h : r ≠ r') :
    (s.setSt r t).stOf r' = s.stOf r' := by
  simp [Store.setSt, Store.stOf, Array.getD_eq_getD_getElem?, h]

theorem stOf_setSt_eq (s : Store) (r : Nat) (t : OpState) (h : r < s.st.size) :
    (s.setSt r t).stOf r = t := by
  simp [Store.setSt, Store.stOf, Array.getD_eq_getD_getElem?, h]

theorem stOf_setSt_oob (s : Store) (r r' : Nat) (t : OpState) (h : ¬ r < s.st.size) :
    (s.setSt r t).stOf r' = s.stOf r' := by
  simp only [Store.setSt, Store.stOf]
  rw [Array.setIfInBounds_eq_of_size_le (by omega)]

@[simp] theorem setSt_ops (s : Store) (r : Nat) (t : OpState) : (s.setSt r t).ops = s.ops := rfl

/-- what an accepted transition looks like -/
theorem transition_ok {s s' : Store} {r : Nat} {t : OpState} (h : s.transition r t = .ok s') :
    t ∈ validNext (s.stOf r) ∧
    (t = running → ∀ p ∈ s.parentsOf r, s.stOf p = completed) ∧
    s' = s.setSt r t ∧ r < s.st.size := by
  unfold Store.transition Store.check at h
  split at h
  · simp at h
  · rename_i hc
    split at hc
    · simp at hc
    · rename_i h0
      split at hc
      · simp at hc
      · split at hc
        · simp at hc
        · rename_i h1 h2
          simp at h
          refine ⟨by simpa using h1, ?_, h.symm, by simpa using h0⟩
          intro ht p hp
          subst ht
          simp at h2
          exact h2 p hp

/-- C02: a refused request changes nothing (the error value carries no new store) and an accepted one is in the table -/
theorem transition_accepted_valid {s s' : Store} {r : Nat} {t : OpState} (h : s.transition r t = .ok s') :
    t ∈ validNext (s.stOf r) := (transition_ok h).1

theorem transition_other {s s' : Store} {r r' : Nat} {t : OpState} (h : s.transition r t = .ok s') (hne : r ≠ r') :
    s'.stOf r' = s.stOf r' := by
  obtain ⟨_, _, rfl, _⟩ := transition_ok h
  exact stOf_setSt_ne s r r' t hne

theorem transition_ops {s s' : Store} {r : Nat} {t : OpState} (h : s.transition r t = .ok s') : s'.ops = s.ops := by
  obtain ⟨_, _, rfl, _⟩ := transition_ok h; rfl

theorem transition_size {s s' : Store} {r : Nat} {t : OpState} (h : s.transition r t = .ok s') : s'.st.size = s.st.size := by
  obtain ⟨_, _, rfl, _⟩ := transition_ok h; simp [Store.setSt]

/-- the new state of the operator that moved (if it exists) -/
theorem transition_self {s s' : Store} {r : Nat} {t : OpState} (h : s.transition r t = .ok s') (hb : r < s.st.size) :
    s'.stOf r = t := by
  obtain ⟨_, _, rfl, _⟩ := transition_ok h
  exact stOf_setSt_eq s r t hb

/-! ## effect discipline -/

inductive Steps : Store → Store → Prop
  | refl (w) : Steps w w
  | step {w w1 w2 : Store} (r : Nat) (t : OpState) : w.transition r t = .ok w1 → Steps w1 w2 → Steps w w2

theorem Steps.trans {a b c : Store} (h1 : Steps a b) (h2 : Steps b c) : Steps a c := by
  induction h1 with
  | refl => exact h2
  | step r t h _ ih => exact .step r t h (ih h2)

theorem Steps.single {w w1 : Store} {r : Nat} {t : OpState} (h : w.transition r t = .ok w1) : Steps w w1 :=
  .step r t h (.refl _)

theorem Steps.ops {s s' : Store} (h : Steps s s') : s'.ops = s.ops := by
  induction h with
  | refl => rfl
  | step r t h1 _ ih => rw [ih, transition_ops h1]

theorem Steps.size {s s' : Store} (h : Steps s s') : s'.st.size = s.st.size := by
  induction h with
  | refl => rfl
  | step r t h1 _ ih => rw [ih, transition_size h1]

/-- completed is final: one step -/
theorem completed_final_step {s s' : Store} {r r' : Nat} {t : OpState}
    (h : s.transition r' t = .ok s') (hc : s.stOf r = completed) : s'.stOf r = completed := by
  by_cases hne : r' = r
  · subst hne
    obtain ⟨hv, _, _, _⟩ := transition_ok h
    rw [hc] at hv
    have hnone : validNext completed = [] := by decide
    rw [hnone] at hv; simp at hv
  · rw [transition_other h hne]; exact hc

theorem completed_final {s s' : Store} (h : Steps s s') (r : Nat) (hc : s.stOf r = completed) :
    s'.stOf r = completed := by
  induction h with
  | refl => exact hc
  | step r' t h1 _ ih => exact ih (completed_final_step h1 hc)

/-- C01, state form: running or completed ⇒ all parents completed -/
def ParentsInv (s : Store) : Prop :=
  ∀ r, (s.stOf r = running ∨ s.stOf r = completed) → ∀ p ∈ s.parentsOf r, s.stOf p = completed

theorem parentsInv_step {s s' : Store} {r : Nat} {t : OpState}
    (h : s.transition r t = .ok s') (inv : ParentsInv s) : ParentsInv s' := by
  intro x hx p hp
  have hops : s'.parentsOf x = s.parentsOf x := by simp [Store.parentsOf, transition_ops h]
  rw [hops] at hp
  obtain ⟨hv, hrun, heq, _⟩ := transition_ok h
  by_cases hxr : r = x
  · subst hxr
    by_cases hb : r < s.st.size
    · have hst : s'.stOf r = t := transition_self h hb
      rw [hst] at hx
      rcases hx with ht | ht
      · exact completed_final_step h (hrun ht p hp)
      · subst ht
        have hwas : s.stOf r = running := by
          have key : ∀ x : OpState, completed ∈ validNext x → x = running := by
            intro x; cases x <;> decide
          exact key _ hv
        exact completed_final_step h (inv r (Or.inl hwas) p hp)
    · have hsame : ∀ y, s'.stOf y = s.stOf y := by
        intro y; rw [heq]; exact stOf_setSt_oob s r y t hb
      rw [hsame] at hx ⊢
      exact inv r hx p hp
  · have hsame : s'.stOf x = s.stOf x := transition_other h hxr
    rw [hsame] at hx
    exact completed_final_step h (inv x hx p hp)

theorem parentsInv_steps {s s' : Store} (h : Steps s s') (inv : ParentsInv s) : ParentsInv s' := by
  induction h with
  | refl => exact inv
  | step r t h1 _ ih => exact ih (parentsInv_step h1 inv)

/-! ## every model function that touches operator states is a sequence of accepted transitions -/

theorem transAll_steps (t : OpState) : ∀ (l : List Nat) (w w' : Store), w.transAll t l = .ok w' → Steps w w' := by
  intro l
  induction l with
  | nil => intro w w' h; simp [Store.transAll] at h; subst h; exact .refl _
  | cons r rs ih =>
    intro w w' h
    unfold Store.transAll at h
    split at h
    · simp at h
    · rename_i w1 hw1
      exact (Steps.single hw1).trans (ih _ _ h)

theorem assignOps_steps : ∀ (l : List Nat) (w w' : Store), assignOps w l = .ok w' → Steps w w' := by
  intro l
  induction l with
  | nil => intro w w' h; simp [assignOps] at h; subst h; exact .refl _
  | cons r rs ih =>
    intro w w' h
    unfold assignOps at h
    split at h
    · simp at h
    · rename_i w1 hw1
      exact (Steps.single hw1).trans (ih _ _ h)

/-- also the partially updated store of a refused Assignment arises from accepted transitions only -/
theorem assignOps_steps_err : ∀ (l : List Nat) (w w' : Store) (e : Err), assignOps w l = .error (e, w') → Steps w w' := by
  intro l
  induction l with
  | nil => intro w w' e h; simp [assignOps] at h
  | cons r rs ih =>
    intro w w' e h
    unfold assignOps at h
    split at h
    · simp at h; obtain ⟨_, rfl⟩ := h; exact .refl _
    · rename_i w1 hw1
      exact (Steps.single hw1).trans (ih _ _ _ h)

end Eudoxia
