import EudoxiaModel.Proofs.NaiveLoop
import EudoxiaModel.Proofs.Counts
/-! The naive scheduler with multi-operator containers in closed loop with the executor. -/
namespace Eudoxia
open OpState Extracted

/-- the only states an executor tick without suspensions moves an operator to -/
def TickTarget (_ : Nat) (t : OpState) : Prop := t = running ∨ t = completed ∨ t = failed

/-- along such transitions nothing becomes busy or pending that was not -/
theorem tickTargets_back {a b : Store} (h : StepsP TickTarget a b) (o : Nat) :
    (Busy (b.stOf o) → Busy (a.stOf o)) ∧ (b.stOf o = pending → a.stOf o = pending) := by
  induction h with
  | refl => exact ⟨id, id⟩
  | @step w w1 w2 r t ht htr _ ih =>
    obtain ⟨i1, i2⟩ := ih
    by_cases e : r = o
    · subst e
      obtain ⟨hv, _, _, hb⟩ := transition_ok htr
      have hself : w1.stOf r = t := transition_self htr hb
      constructor
      · intro hbz
        have hb1 := i1 hbz
        rw [hself] at hb1
        -- the only busy target is RUNNING, which is entered from ASSIGNED
        rcases ht with e | e | e
        · subst e
          have : w.stOf r = assigned := by
            revert hv; cases w.stOf r <;> simp [validNext]
          rw [this]; exact Or.inl rfl
        · subst e; rcases hb1 with x | x | x <;> cases x
        · subst e; rcases hb1 with x | x | x <;> cases x
      · intro hp
        have := i2 hp
        rw [hself] at this
        rcases ht with e | e | e <;> (subst e; cases this)
    · constructor
      · intro hbz; rw [← transition_other htr e]; exact i1 hbz
      · intro hp; rw [← transition_other htr e]; exact i2 hp

theorem tick_targets (cfg : Cfg) (w : Store) (c : Ctr) (cons : Int) (w' : Store) (c' : Ctr) (cons' : Int)
    (wf : CtrWF cfg c) (hnd : c.ops.Nodup) (hfc : c.completed = false → c.frozen = false) (h : c.tick cfg w cons = .ok (w', c', cons')) :
    StepsP TickTarget w w' :=
  (tick_live cfg w c cons w' c' cons' wf hnd hfc h).2.2.2.2.1.mono (fun r t hx => by
    rcases hx.2 with e | ⟨e, _⟩
    · exact Or.inl e
    · exact Or.inr (Or.inl e))

theorem kill_targets {w w' : Store} {c c' : Ctr} {cons cons' : Int} (h : c.kill w cons = .ok (w', c', cons')) : StepsP TickTarget w w' :=
  (kill_live w c cons w' c' cons' h).2.2.2.2.mono (fun r t hx => Or.inr (Or.inr hx.2))

theorem tickAll_targets (cfg : Cfg) : ∀ (l : List Ctr) (w : Store) (cons : Int) (w' : Store) (l' : List Ctr) (cons' : Int),
    tickAll cfg w l cons = .ok (w', l', cons') → (∀ c ∈ l, CtrInv cfg c ∧ (c.completed = false → c.frozen = false)) → StepsP TickTarget w w' := by
  intro l
  induction l with
  | nil =>
    intro w cons w' l' cons' h _
    simp only [tickAll, Except.ok.injEq, Prod.mk.injEq] at h
    rw [h.1]; exact .refl _
  | cons c cs ih =>
    intro w cons w' l' cons' h hinv
    unfold tickAll at h
    split at h
    · cases h
    · rename_i w1 c1 cons1 ht
      split at h
      · cases h
      · rename_i w2 cs2 cons2 hrest
        simp only [Except.ok.injEq, Prod.mk.injEq] at h
        obtain ⟨rfl, _, _⟩ := h
        obtain ⟨ci, hfc⟩ := hinv c (by simp)
        exact (tick_targets cfg w c cons w1 c1 cons1 ci.wf ci.nd hfc ht).trans (ih _ _ _ _ _ hrest (fun d hd => hinv d (List.mem_cons_of_mem _ hd)))

theorem killIndividual_targets : ∀ (l : List Ctr) (w : Store) (cons : Int) (w' : Store) (l' : List Ctr) (cons' : Int),
    killIndividual w l cons = .ok (w', l', cons') → StepsP TickTarget w w' := by
  intro l
  induction l with
  | nil =>
    intro w cons w' l' cons' h
    simp only [killIndividual, Except.ok.injEq, Prod.mk.injEq] at h
    rw [h.1]; exact .refl _
  | cons c cs ih =>
    intro w cons w' l' cons' h
    unfold killIndividual at h
    split at h
    · split at h
      · cases h
      · rename_i w1 c1 cons1 hk
        split at h
        · cases h
        · rename_i w2 cs2 cons2 hrest
          simp only [Except.ok.injEq, Prod.mk.injEq] at h
          obtain ⟨rfl, _, _⟩ := h
          exact (kill_targets hk).trans (ih _ _ _ _ _ hrest)
    · split at h
      · cases h
      · rename_i w2 cs2 cons2 hrest
        simp only [Except.ok.injEq, Prod.mk.injEq] at h
        obtain ⟨rfl, _, _⟩ := h
        exact ih _ _ _ _ _ hrest

theorem killVictims_targets (capR : Nat) : ∀ (vs : List Ctr) (w : Store) (act : List Ctr) (cons : Int) (w' : Store) (act' : List Ctr) (cons' : Int),
    killVictims w capR act cons vs = .ok (w', act', cons') → StepsP TickTarget w w' := by
  intro vs
  induction vs with
  | nil =>
    intro w act cons w' act' cons' h
    simp only [killVictims, Except.ok.injEq, Prod.mk.injEq] at h
    rw [h.1]; exact .refl _
  | cons v vs ih =>
    intro w act cons w' act' cons' h
    unfold killVictims at h
    split at h
    · simp only [Except.ok.injEq, Prod.mk.injEq] at h
      rw [h.1]; exact .refl _
    · split at h
      · cases h
      · rename_i w1 v1 cons1 hk
        exact (kill_targets hk).trans (ih _ _ _ _ _ _ h)

theorem oomKiller_targets {w w' : Store} {p p' : Pool} (h : oomKiller w p = .ok (w', p')) : StepsP TickTarget w w' := by
  unfold oomKiller at h
  split at h
  · cases h
  · rename_i w1 act1 cons1 hk
    split at h
    · rw [← ok_fst h]; exact killIndividual_targets _ _ _ _ _ _ hk
    · split at h
      · cases h
      · rename_i w2 act2 cons2 hv
        rw [← ok_fst h]
        exact (killIndividual_targets _ _ _ _ _ _ hk).trans (killVictims_targets _ _ _ _ _ _ _ _ hv)


/-- phases 3–6 of a pool that has no write-out in progress -/
theorem poolRun_targets {cfg : Cfg} {w w' : Store} {p p' : Pool} {res : List Res} (hs : p.suspending = [])
    (hinv : ∀ c ∈ p.active, CtrInv cfg c ∧ (c.completed = false → c.frozen = false)) (h : poolRun cfg w p = .ok (w', p', res)) :
    StepsP TickTarget w w' ∧ p'.suspending = [] := by
  unfold poolRun at h
  split at h
  · cases h
  · rename_i w3 p3 h3
    have h3' : w3 = w ∧ p3.active = p.active ∧ p3.suspending = [] := by
      unfold suspTickAll at h3
      rw [hs] at h3
      simp only [suspTickList, Except.ok.injEq, Prod.mk.injEq] at h3
      obtain ⟨rfl, rfl⟩ := h3
      exact ⟨rfl, rfl, by simp⟩
    obtain ⟨rfl, act3, sus3⟩ := h3'
    split at h
    · cases h
    · rename_i w4 act4 cons4 h4
      rw [act3] at h4
      have t4 := tickAll_targets cfg _ _ _ _ _ _ h4 hinv
      split at h
      · cases h
      · rename_i w5 p5 h5
        simp only [Except.ok.injEq, Prod.mk.injEq] at h
        obtain ⟨rfl, hp', _⟩ := h
        refine ⟨t4.trans (oomKiller_targets h5), ?_⟩
        obtain ⟨_, f2, _⟩ := collect_fields p5
        rw [← hp', f2]
        -- the killer does not touch the suspending list
        have : p5.suspending = p3.suspending := by
          unfold oomKiller at h5
          split at h5
          · cases h5
          · split at h5
            · rw [← ok_snd2 h5]
            · split at h5
              · cases h5
              · rw [← ok_snd2 h5]
        rw [this, sus3]

theorem startAll_suspending (cfg : Cfg) (w : Store) : ∀ (as : List Asg) (p : Pool) (n : Nat) (p' : Pool) (n' : Nat),
    startAll cfg w p n as = .ok (p', n') → p'.suspending = p.suspending := by
  intro as
  induction as with
  | nil => intro p n p' n' h; simp only [startAll, Except.ok.injEq, Prod.mk.injEq] at h; rw [← h.1]
  | cons a as ih =>
    intro p n p' n' h
    unfold startAll at h
    split at h
    · cases h
    · rw [ih _ _ _ _ h]

/-- a pool tick without suspension requests on a pool without write-outs -/
theorem poolTick_targets {cfg : Cfg} {w w' : Store} {p p' : Pool} {n n' : Nat} {asgs : List Asg} {res : List Res}
    (hs : p.suspending = []) (hl : PoolLive cfg w p) (m : MemOK p) (ha : AsgsOK w asgs)
    (h : poolTick cfg w p n { susp := [], asgs := asgs } = .ok (w', p', n', res)) :
    StepsP TickTarget w w' ∧ p'.suspending = [] := by
  unfold poolTick at h
  simp only [List.isEmpty_nil, ↓reduceIte] at h
  split at h
  · cases h
  · split at h
    · cases h
    · rename_i p2 n2 hst
      split at h
      · cases h
      · rename_i w6 p6 res6 hr
        simp only [Except.ok.injEq, Prod.mk.injEq] at h
        obtain ⟨rfl, rfl, _, _⟩ := h
        have hs2 : p2.suspending = [] := by rw [startAll_suspending cfg w asgs p n p2 n2 hst, hs]
        -- every container of the pool after the starts is well-formed and not frozen
        have m2 := (startAll_mem cfg w asgs p n m).1 _ _ hst
        have hinv2 : ∀ c ∈ p2.active, CtrInv cfg c ∧ (c.completed = false → c.frozen = false) := by
          have key : ∀ (as : List Asg) (p0 : Pool) (n0 : Nat) (p1 : Pool) (n1 : Nat), startAll cfg w p0 n0 as = .ok (p1, n1) →
              (∀ a ∈ as, a.ops.Nodup ∧ ∀ r ∈ a.ops, w.segsOf r ≠ []) → (∀ c ∈ p0.active, CtrInv cfg c) → ∀ c ∈ p1.active, CtrInv cfg c := by
            intro as
            induction as with
            | nil => intro p0 n0 p1 n1 h _ hi; simp only [startAll, Except.ok.injEq, Prod.mk.injEq] at h; rw [← h.1]; exact hi
            | cons a as ih =>
              intro p0 n0 p1 n1 h haa hi
              unfold startAll at h
              split at h
              · cases h
              · apply ih _ _ _ _ h (fun b hb => haa b (List.mem_cons_of_mem _ hb))
                intro c hc
                simp only [List.mem_append, List.mem_singleton] at hc
                rcases hc with hc | rfl
                · exact hi c hc
                · exact (mkCtr_inv cfg w n0 a (haa a (by simp)).1 (haa a (by simp)).2).1
          intro c hc
          exact ⟨key asgs p n p2 n2 hst (fun a haa => ⟨(ha a haa).1, fun r hr => ((ha a haa).2 r hr).1⟩)
            (fun c hc => hl.inv c (List.mem_append_left _ hc)) c hc, fun _ => (m2.ok c hc).2.1⟩
        exact poolRun_targets hs2 hinv2 hr


theorem execPools_targets (cfg : Cfg) (asgs : List Asg) :
    ∀ (todo : List Pool) (s : Store) (n : Nat) (done : List Pool) (res : List Res) (s' : Store) (ps : List Pool) (n' : Nat) (res' : List Res),
    PoolsLive cfg asgs s n done todo → (∀ p ∈ done ++ todo, p.suspending = []) →
    execPools cfg [] asgs s n done todo res = .ok (s', ps, n', res') →
    StepsP TickTarget s s' ∧ ∀ p ∈ ps, p.suspending = [] := by
  intro todo
  induction todo with
  | nil =>
    intro s n done res s' ps n' res' _ hs h
    simp only [execPools, Except.ok.injEq, Prod.mk.injEq] at h
    obtain ⟨rfl, rfl, _, _⟩ := h
    exact ⟨.refl _, fun p hp => hs p (by simpa using hp)⟩
  | cons p rest ih =>
    intro s n done res s' ps n' res' hJ hs h
    unfold execPools at h
    split at h
    · cases h
    · cases h
    · rename_i s1 p1 n1 r hp
      obtain ⟨gp, lp⟩ := hJ.pools p (by simp)
      obtain ⟨_, haok, _⟩ := poolsLive_head (sus := []) hJ
      have hcm : cmdsFor done.length [] asgs = { susp := [], asgs := asgs.filter (·.pool == done.length) } := rfl
      rw [hcm] at hp haok
      obtain ⟨t1, s1'⟩ := poolTick_targets (hs p (by simp)) lp gp.2 haok hp
      have hp' : poolTick cfg s p n (cmdsFor done.length [] asgs) = .ok (s1, p1, n1, r) := by rw [hcm]; exact hp
      obtain ⟨l1, _, _⟩ := poolsLive_step hJ hp'
      obtain ⟨t2, s2⟩ := ih s1 n1 (done ++ [p1]) (res ++ r) s' ps n' res' l1 (by
        intro q hq
        have hq' : q ∈ done ∨ q = p1 ∨ q ∈ rest := by simpa [List.mem_append, or_assoc] using hq
        rcases hq' with hq' | rfl | hq'
        · exact hs q (by simp [hq'])
        · exact s1'
        · exact hs q (by simp [hq'])) h
      exact ⟨t1.trans t2, s2⟩


/-! ### pipelines as the naive scheduler with multi-operator containers sees them -/

/-- every operator listed by a pipeline records that pipeline as its own -/
def World.PidOK (w : World) : Prop := ∀ pid, ∀ r ∈ (w.pipes.getD pid default).order, w.store.pidOf r = pid

/-- operator order is topological: every parent of an operator comes earlier in its pipeline's order -/
def World.Topo (w : World) : Prop :=
  ∀ pid pre r post, (w.pipes.getD pid default).order = pre ++ r :: post → ∀ q ∈ w.store.parentsOf r, q ∈ pre

/-- a pipeline with an operator in a container has no operator waiting (multi-operator containers take everything at once; nothing is ever suspended) -/
def World.Quiet (w : World) : Prop :=
  ∀ pid, (∃ o ∈ (w.pipes.getD pid default).order, Busy (w.store.stOf o)) → ∀ o ∈ (w.pipes.getD pid default).order, w.store.stOf o ≠ pending

structure NaiveInv (w : World) : Prop where
  wfp : w.WFP
  segs : w.SegsOK
  pid : w.PidOK
  topo : w.Topo
  quiet : w.Quiet
  cnt : CountsInv w.store

theorem filter_split (P : Nat → Bool) : ∀ (l pre' : List Nat) (o : Nat) (post' : List Nat), l.filter P = pre' ++ o :: post' →
    ∃ pre post, l = pre ++ o :: post ∧ pre' = pre.filter P := by
  intro l
  induction l with
  | nil => intro pre' o post' h; simp at h
  | cons x xs ih =>
    intro pre' o post' h
    rw [List.filter_cons] at h
    split at h
    · rename_i hx
      cases pre' with
      | nil =>
        simp only [List.nil_append, List.cons.injEq] at h
        obtain ⟨rfl, _⟩ := h
        exact ⟨[], xs, rfl, rfl⟩
      | cons y ys =>
        simp only [List.cons_append, List.cons.injEq] at h
        obtain ⟨rfl, h2⟩ := h
        obtain ⟨pre, post, e1, e2⟩ := ih ys o post' h2
        exact ⟨x :: pre, post, by rw [e1]; rfl, by rw [List.filter_cons, if_pos hx, e2]⟩
    · rename_i hx
      obtain ⟨pre, post, e1, e2⟩ := ih pre' o post' h
      exact ⟨x :: pre, post, by rw [e1]; rfl, by rw [List.filter_cons, if_neg hx, e2]⟩

/-- no failed operator in a pipeline whose failure count is zero -/
theorem no_failed_of_count {w : World} (inv : NaiveInv w) (pid : Nat) (h : w.hasFailures pid = false) :
    ∀ r ∈ (w.pipes.getD pid default).order, w.store.stOf r ≠ failed := by
  intro r hr hf
  unfold World.hasFailures at h
  have hc : w.store.count pid failed = 0 := by simpa using h
  rw [inv.cnt.ok] at hc
  unfold Store.hist at hc
  have := List.countP_eq_zero.mp hc r (List.mem_range.mpr ((inv.wfp pid).2 r hr))
  simp [inv.pid pid r hr, hf] at this

/-- **everything the naive scheduler puts into one multi-operator container is in dependency order**: each parent is COMPLETED or earlier in the list -/
theorem multi_ops_parentsOK {w : World} (inv : NaiveInv w) (pid : Nat) (hnf : w.hasFailures pid = false) :
    ParentsOK w.store (w.getOps pid assignable false) := by
  intro pre' o post' hU q hq
  unfold World.getOps at hU
  obtain ⟨pre, post, hord, hpre⟩ := filter_split _ _ _ _ _ hU
  have hqpre : q ∈ pre := inv.topo pid pre o post hord q hq
  have hqord : q ∈ (w.pipes.getD pid default).order := by rw [hord]; exact List.mem_append_left _ hqpre
  have hoord : o ∈ (w.pipes.getD pid default).order := by rw [hord]; simp
  have hoU : o ∈ (w.pipes.getD pid default).order.filter (fun r => assignable.contains (w.store.stOf r) && (!false || (w.store.parentsOf r).all (fun x => w.store.stOf x == completed))) := by
    rw [hU]; simp
  have hoa : w.store.stOf o ∈ assignable := by
    have := (List.mem_filter.mp hoU).2
    simpa using this
  have honf := no_failed_of_count inv pid hnf o hoord
  have hopend : w.store.stOf o = pending := by
    simp only [assignable, List.mem_cons, List.not_mem_nil, or_false] at hoa
    rcases hoa with e | e
    · exact e
    · exact absurd e honf
  have hqnf := no_failed_of_count inv pid hnf q hqord
  -- the state of the parent
  cases hst : w.store.stOf q with
  | completed => exact Or.inl rfl
  | pending =>
    right
    rw [hpre]
    exact List.mem_filter.mpr ⟨hqpre, by simp [hst, assignable]⟩
  | failed => exact absurd hst hqnf
  | assigned => exact absurd hopend (inv.quiet pid ⟨q, hqord, by rw [hst]; exact Or.inl rfl⟩ o hoord)
  | running => exact absurd hopend (inv.quiet pid ⟨q, hqord, by rw [hst]; exact Or.inr (Or.inl rfl)⟩ o hoord)
  | suspending => exact absurd hopend (inv.quiet pid ⟨q, hqord, by rw [hst]; exact Or.inr (Or.inr rfl)⟩ o hoord)


theorem naiveInv_steps_static {w w' : World} (inv : NaiveInv w) (hp : w'.pipes = w.pipes) (hs : Steps w.store w'.store) (hq : w'.Quiet) : NaiveInv w' := by
  refine ⟨?_, ?_, ?_, ?_, hq, countsInv_steps hs inv.cnt⟩
  · intro pid; rw [hp, hs.size]; exact inv.wfp pid
  · intro pid r hr; rw [hp] at hr; unfold Store.segsOf; rw [hs.ops]; exact inv.segs pid r hr
  · intro pid r hr; rw [hp] at hr; unfold Store.pidOf; rw [hs.ops]; exact inv.pid pid r hr
  · intro pid pre r post ho q hq'
    rw [hp] at ho
    exact inv.topo pid pre r post ho q (by unfold Store.parentsOf at hq' ⊢; rw [← hs.ops]; exact hq')

/-- handing all waiting operators of a failure-free pipeline to one container keeps the picture -/
theorem naiveInv_assign {w w' : World} {a : Asg} (inv : NaiveInv w) (pid : Nat) (hnf : w.hasFailures pid = false)
    (h : w.mkAssignment a = .ok w') (ha : a.ops = w.getOps pid assignable false) : NaiveInv w' := by
  obtain ⟨_, _, _, _, m5, m6⟩ := mkAssignment_spec h
  have hp := Naive.mkAssignment_pipes h
  refine naiveInv_steps_static inv hp (mkAssignment_steps_ok h) ?_
  have hsub : ∀ r ∈ a.ops, r ∈ (w.pipes.getD pid default).order := by
    intro r hr; rw [ha] at hr; unfold World.getOps at hr; exact (List.mem_filter.mp hr).1
  intro pid' ⟨o, ho, hb⟩ o' ho' hpend
  rw [hp] at ho ho'
  by_cases hpe : pid' = pid
  · subst hpe
    have hn : o' ∉ a.ops := fun hx => by rw [(m5 o' hx).2] at hpend; cases hpend
    have hw : w.store.stOf o' = pending := by rw [← m6 o' hn]; exact hpend
    apply hn
    rw [ha]
    unfold World.getOps
    exact List.mem_filter.mpr ⟨ho', by simp [hw, assignable]⟩
  · have hdis : ∀ r ∈ (w.pipes.getD pid' default).order, r ∉ a.ops := by
      intro r hr hx
      have h1 := inv.pid pid' r hr
      have h2 := inv.pid pid r (hsub r hx)
      exact hpe (h1.symm.trans h2)
    have hb' : Busy (w.store.stOf o) := by rw [← m6 o (hdis o ho)]; exact hb
    have := inv.quiet pid' ⟨o, ho, hb'⟩ o' ho'
    rw [m6 o' (hdis o' ho')] at hpend
    exact this hpend

namespace Naive

/-- one scan of the queue with multi-operator containers -/
theorem pop_multi (pool cpu ram : Nat) : ∀ (queue : List Nat) (w : World) (req : List Nat) (w' : World) (rest req' : List Nat) (oa : Option Asg),
    pop w true pool cpu ram queue req = .ok (w', rest, req', oa) → NaiveInv w →
    NaiveInv w' ∧
    match oa with
    | none => w' = w
    | some a => w.mkAssignment a = .ok w' ∧ a.pool = pool ∧ a.cpu = cpu ∧ a.ram = ram ∧ a.ops ≠ [] ∧ ParentsOK w.store a.ops ∧
        ∀ r ∈ a.ops, w.store.segsOf r ≠ [] := by
  intro queue
  induction queue with
  | nil =>
    intro w req w' rest req' oa h inv
    simp only [pop, Except.ok.injEq, Prod.mk.injEq] at h
    obtain ⟨rfl, _, _, rfl⟩ := h
    exact ⟨inv, rfl⟩
  | cons pid q ih =>
    intro w req w' rest req' oa h inv
    unfold pop at h
    split at h
    · exact ih _ _ _ _ _ _ h inv
    · rename_i hskip
      split at h
      · exact ih _ _ _ _ _ _ h inv
      · rename_i hne
        split at h
        · cases h
        · rename_i w1 a1 hmk
          simp only [Except.ok.injEq, Prod.mk.injEq] at h
          obtain ⟨rfl, _, _, rfl⟩ := h
          obtain ⟨ea, hm⟩ := mkA_ok hmk
          simp only [Bool.or_eq_true, not_or, Bool.not_eq_true] at hskip
          have hops : a1.ops = w.getOps pid assignable false := by rw [ea]; simp [opsFor]
          refine ⟨naiveInv_assign inv pid hskip.2 hm hops, hm, by rw [ea], by rw [ea], by rw [ea], ?_, ?_, ?_⟩
          · rw [hops]; intro e; apply hne; simp [opsFor, e]
          · rw [hops]; exact multi_ops_parentsOK inv pid hskip.2
          · intro r hr
            rw [hops] at hr
            unfold World.getOps at hr
            exact inv.segs pid r (List.mem_filter.mp hr).1

/-- the loop over the pools with multi-operator containers -/
theorem pools_multi : ∀ (ips : List (Nat × Pool)) (w : World) (queue req : List Nat) (acc : List Asg) (w' : World) (queue' req' : List Nat) (out : List Asg),
    pools true w ips queue req acc = .ok (w', queue', req', out) → NaiveInv w →
    NaiveInv w' ∧ ∃ new, out = acc ++ new ∧ Built w new w' ∧ (new.map (·.pool)).Sublist (ips.map (·.1)) ∧
      ∀ a ∈ new, (∃ ip ∈ ips, ip.1 = a.pool ∧ 0 < ip.2.availC ∧ 0 < ip.2.availR ∧ (a.cpu : Int) = ip.2.availC ∧ (a.ram : Int) = ip.2.availR) ∧
        a.ops ≠ [] ∧ ParentsOK w'.store a.ops ∧ ∀ r ∈ a.ops, w'.store.segsOf r ≠ [] := by
  intro ips
  induction ips with
  | nil =>
    intro w queue req acc w' queue' req' out h inv
    simp only [pools, Except.ok.injEq, Prod.mk.injEq] at h
    obtain ⟨rfl, _, _, rfl⟩ := h
    exact ⟨inv, [], by simp, .nil _, by simp, by simp⟩
  | cons ip ips ih =>
    intro w queue req acc w' queue' req' out h inv
    obtain ⟨i, p⟩ := ip
    unfold pools at h
    split at h
    · obtain ⟨inv', new, h1, h2, h3, h4⟩ := ih _ _ _ _ _ _ _ _ h inv
      exact ⟨inv', new, h1, h2, h3.trans (by simp), fun a ha => ⟨let ⟨x, hx, r⟩ := (h4 a ha).1; ⟨x, List.mem_cons_of_mem _ hx, r⟩, (h4 a ha).2⟩⟩
    · rename_i hfree
      simp only [Bool.or_eq_true, decide_eq_true_eq, not_or, Int.not_le] at hfree
      split at h
      · cases h
      · rename_i w1 q1 r1 oa hp
        obtain ⟨inv1, hpop⟩ := pop_multi i _ _ _ _ _ _ _ _ _ hp inv
        cases oa with
        | none =>
          simp only at hpop
          subst hpop
          obtain ⟨inv', new, h1, h2, h3, h4⟩ := ih _ _ _ _ _ _ _ _ h inv
          exact ⟨inv', new, h1, h2, h3.trans (by simp), fun a ha => ⟨let ⟨x, hx, r⟩ := (h4 a ha).1; ⟨x, List.mem_cons_of_mem _ hx, r⟩, (h4 a ha).2⟩⟩
        | some a0 =>
          simp only at hpop
          obtain ⟨hm, e1, e2, e3, hne, hpar, hsg⟩ := hpop
          obtain ⟨inv', new, h1, h2, h3, h4⟩ := ih _ _ _ _ _ _ _ _ h inv1
          have hst1 : Steps w.store w1.store := mkAssignment_steps_ok hm
          have hst2 : Steps w1.store w'.store := (built_frame h2).2.2.2
          refine ⟨inv', a0 :: new, by simp [h1], .cons hm h2, by simp only [List.map_cons, e1]; exact h3.cons_cons i, ?_⟩
          intro a ha
          rcases List.mem_cons.mp ha with rfl | ha'
          · refine ⟨⟨(i, p), by simp, e1.symm, hfree.1, hfree.2, by rw [e2]; exact Int.toNat_of_nonneg (by omega), by rw [e3]; exact Int.toNat_of_nonneg (by omega)⟩,
              hne, ?_, ?_⟩
            · exact parentsOK_frame (parentsOK_frame hpar hst1.ops (fun q hq => completed_final hst1 q hq)) hst2.ops (fun q hq => completed_final hst2 q hq)
            · intro r hr
              unfold Store.segsOf; rw [hst2.ops, hst1.ops]; exact hsg r hr
          · exact ⟨let ⟨x, hx, rr⟩ := (h4 a ha').1; ⟨x, List.mem_cons_of_mem _ hx, rr⟩, (h4 a ha').2⟩


/-- no write-out is in progress anywhere (the naive scheduler never suspends) -/
def _root_.Eudoxia.World.NoSusp (w : World) : Prop := ∀ p ∈ w.pools, p.suspending = []

/-- **one scheduling round plus one executor tick never raise** with multi-operator containers, and everything needed for the next round holds again -/
theorem naive_multi_tick_never_raises (w : World) (st : St) (results : List Res) (newP : List Nat)
    (hr : WorldReady w) (inv : NaiveInv w) (hns : w.NoSusp) (hm : w.cfg.multiOp = true) :
    ∃ w1 st1 dec w2 res, round true w st results newP = .ok (w1, st1, dec) ∧ w1.execTick dec.sus dec.asgs = .ok (w2, res) ∧
      WorldReady w2 ∧ NaiveInv w2 ∧ w2.NoSusp ∧ w2.cfg.multiOp = true := by
  have hround : ∃ w1 st1 asgs, round true w st results newP = .ok (w1, st1, { asgs := asgs }) ∧ NaiveInv w1 ∧ Built w asgs w1 ∧
      (asgs.map (·.pool)).Sublist (List.range w.pools.length) ∧
      ∀ a ∈ asgs, (∃ p, w.pools[a.pool]? = some p ∧ 0 < p.availC ∧ 0 < p.availR ∧ (a.cpu : Int) = p.availC ∧ (a.ram : Int) = p.availR) ∧
        a.ops ≠ [] ∧ ParentsOK w1.store a.ops ∧ ∀ r ∈ a.ops, w1.store.segsOf r ≠ [] := by
    unfold round
    split
    · exact ⟨w, st, [], rfl, inv, .nil _, by simp, by simp⟩
    · obtain ⟨w1, q1, r1, asgs, h1, _⟩ := pools_succeeds true (indexed w.pools) w (st.queue ++ newP) [] [] inv.wfp
      obtain ⟨inv1, new, e, hb, hsub, hall⟩ := pools_multi _ _ _ _ _ _ _ _ _ h1 inv
      simp only [List.nil_append] at e
      subst e
      rw [h1]
      refine ⟨w1, _, asgs, rfl, inv1, hb, by rw [← indexed_fst']; exact hsub, ?_⟩
      intro a ha
      obtain ⟨⟨ip, hip, e1, c1, c2, c3, c4⟩, hrest⟩ := hall a ha
      exact ⟨⟨ip.2, by rw [← e1]; exact indexed_mem' hip, c1, c2, c3, c4⟩, hrest⟩
  obtain ⟨w1, st1, asgs, hrd, inv1, hb, hsub, hall⟩ := hround
  obtain ⟨e1, e2, e3, est⟩ := built_frame hb
  have hndp : (asgs.map (·.pool)).Nodup := hsub.nodup List.nodup_range
  have hseg0 : ∀ a ∈ asgs, ∀ r ∈ a.ops, w.store.segsOf r ≠ [] := by
    intro a ha r hrr
    have := (hall a ha).2.2.2 r hrr
    unfold Store.segsOf at this ⊢; rw [← est.ops]; exact this
  have hpar : ∀ a ∈ asgs, ParentsOK w1.store a.ops := fun a ha => (hall a ha).2.2.1
  obtain ⟨w2, res, hex, r2, p2, c2, st2⟩ := execTick_succeeds_of_gates w w1 asgs hr hb hseg0 hpar
    (by intro a ha
        have : a.pool ∈ List.range w.pools.length := hsub.subset (List.mem_map_of_mem ha)
        rw [e1]; exact List.mem_range.mp this)
    (by intro k p hk
        rw [e1] at hk
        rcases filter_le_one_of_nodup_map asgs k hndp with h | ⟨a, ha, h⟩
        · left; rw [h]; rfl
        · right
          rw [h]
          obtain ⟨⟨p', hp', _, _, c3, c4⟩, _⟩ := hall a ha
          have hak : a.pool = k := by
            have : a ∈ asgs.filter (·.pool == k) := by rw [h]; simp
            simpa using (List.mem_filter.mp this).2
          rw [hak, hk] at hp'
          cases hp'
          unfold verifyAssignments
          simp only [cpuReq, ramReq, List.map_cons, List.map_nil, List.sum_cons, List.sum_nil, Nat.add_zero]
          rw [if_neg (by omega)]
          split
          · rename_i hx
            simp only [Bool.and_eq_true, Bool.not_eq_true', decide_eq_true_eq] at hx
            omega
          · rfl)
    (by intro a ha
        unfold opCountOk
        rw [e2, hm]
        simp only [↓reduceIte, ge_iff_le, decide_eq_true_eq]
        have := (hall a ha).2.1
        cases hh : a.ops with
        | nil => exact absurd hh this
        | cons x xs => simp)
  -- what the tick did to operator states: only RUNNING / COMPLETED / FAILED targets, and still no write-out anywhere
  have htargets : StepsP TickTarget w1.store w2.store ∧ w2.NoSusp := by
    have hJ := poolsReady_of_built w w1 asgs hr hb hseg0 hpar
    unfold World.execTick at hex
    split at hex
    · cases hex
    · split at hex
      · cases hex
      · cases hex
      · rename_i s ps n rr hexp
        simp only [Except.ok.injEq, Prod.mk.injEq] at hex
        obtain ⟨rfl, _⟩ := hex
        obtain ⟨t, sp⟩ := execPools_targets w1.cfg asgs w1.pools w1.store w1.nextCid [] [] s ps n rr hJ.live
          (by intro p hp; simp only [List.nil_append] at hp; rw [e1] at hp; exact hns p hp) hexp
        exact ⟨t, sp⟩
  obtain ⟨tt, ns2⟩ := htargets
  have hq2 : w2.Quiet := by
    intro pid ⟨o, ho, hb2⟩ o' ho' hp2
    rw [p2] at ho ho'
    have hb1 := (tickTargets_back tt o).1 hb2
    have hp1 := (tickTargets_back tt o').2 hp2
    exact inv1.quiet pid ⟨o, ho, hb1⟩ o' ho' hp1
  exact ⟨w1, st1, { asgs := asgs }, w2, res, hrd, hex, r2, naiveInv_steps_static inv1 p2 st2 hq2, ns2, by rw [c2, e2]; exact hm⟩

/-- the simulator's main loop for the naive scheduler (either container mode) -/
def loopM (multi : Bool) : World → St → List Res → List (List Nat) → Except Err (World × St × List Res)
  | w, st, res, [] => .ok (w, st, res)
  | w, st, res, newP :: rest =>
    match round multi w st res newP with
    | .error e => .error e.1
    | .ok (w1, st1, dec) =>
      match w1.execTick dec.sus dec.asgs with
      | .error e => .error e.1
      | .ok (w2, res2) => loopM multi w2 st1 res2 rest

/-- **the naive scheduler with multi-operator containers (the default configuration) drives any run to its last tick without raising**:
from a ready world without write-outs whose pipelines are well-formed DAGs listed in topological order, for every sequence of arrival batches -/
theorem run_multi_never_raises : ∀ (arrivals : List (List Nat)) (w : World) (st : St) (res : List Res),
    WorldReady w → NaiveInv w → w.NoSusp → w.cfg.multiOp = true → ∃ out, loopM true w st res arrivals = .ok out := by
  intro arrivals
  induction arrivals with
  | nil => intro w st res _ _ _ _; exact ⟨_, rfl⟩
  | cons newP rest ih =>
    intro w st res hr inv hns hm
    obtain ⟨w1, st1, dec, w2, res2, h1, h2, r2, inv2, ns2, hm2⟩ := naive_multi_tick_never_raises w st res newP hr inv hns hm
    obtain ⟨out, ho⟩ := ih w2 st1 res2 r2 inv2 ns2 hm2
    exact ⟨out, by unfold loopM; rw [h1]; simp only; rw [h2]; exact ho⟩

end Naive
end Eudoxia
