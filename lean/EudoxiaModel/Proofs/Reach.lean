import EudoxiaModel.Proofs.ExecSteps
/-! Worlds reachable under *arbitrary* command sequences: any `Assignment(...)` construction (accepted or
    refused, keeping the partial effect of a refused one) and any executor tick with any suspension and
    assignment lists (continuing after a pre-tick error, whose well-defined state the error carries). -/
namespace Eudoxia
open OpState

inductive Reach : World → World → Prop
  | refl (w) : Reach w w
  | assignOk {w w1 w2 : World} (a : Asg) : Reach w w1 → w1.mkAssignment a = .ok w2 → Reach w w2
  | assignErr {w w1 w2 : World} (a : Asg) (e : Err) : Reach w w1 → w1.mkAssignment a = .error (e, w2) → Reach w w2
  | tickOk {w w1 w2 : World} (sus : List (Nat × Nat)) (asgs : List Asg) (res : List Res) :
      Reach w w1 → w1.execTick sus asgs = .ok (w2, res) → Reach w w2
  | tickErr {w w1 w2 : World} (sus : List (Nat × Nat)) (asgs : List Asg) (e : Err) :
      Reach w w1 → w1.execTick sus asgs = .error (e, some w2) → Reach w w2

theorem Reach.steps {w w' : World} (h : Reach w w') : Steps w.store w'.store := by
  induction h with
  | refl => exact .refl _
  | assignOk a _ h2 ih => exact ih.trans (mkAssignment_steps_ok h2)
  | assignErr a e _ h2 ih => exact ih.trans (mkAssignment_steps_err h2)
  | tickOk sus asgs res _ h2 ih => exact ih.trans (execTick_steps_ok h2)
  | tickErr sus asgs e _ h2 ih => exact ih.trans (execTick_steps_err h2)

theorem Reach.trans {a b c : World} (h1 : Reach a b) (h2 : Reach b c) : Reach a c := by
  induction h2 with
  | refl => exact h1
  | assignOk x _ h ih => exact .assignOk x ih h
  | assignErr x e _ h ih => exact .assignErr x e ih h
  | tickOk s x r _ h ih => exact .tickOk s x r ih h
  | tickErr s x e _ h ih => exact .tickErr s x e ih h

/-- a world in which no operator has been touched yet -/
def World.Fresh (w : World) : Prop := ∀ r, w.store.stOf r = pending

theorem fresh_parentsInv {w : World} (h : w.Fresh) : ParentsInv w.store := by
  intro r hr
  rw [h r] at hr
  rcases hr with hr | hr <;> cases hr

end Eudoxia
