import EudoxiaModel.Model.Exec
import EudoxiaModel.Proofs.Store
/-! Chains of accepted `Assignment(...)` constructions and what they do to operator states. -/
namespace Eudoxia
open OpState Extracted

theorem accepted_valid {s s' : Store} {r : Nat} {t : OpState} (h : s.transition r t = .ok s') :
    t ∈ validNext (s.stOf r) ∧ (t = running → ∀ p ∈ s.parentsOf r, s.stOf p = completed) ∧
    s'.stOf r = t ∧ ∀ r', r' ≠ r → s'.stOf r' = s.stOf r' := by
  obtain ⟨h1, h2, _, hb⟩ := transition_ok h
  exact ⟨h1, h2, transition_self h hb, fun r' hne => transition_other h (Ne.symm hne)⟩

/-- a chain of accepted `Assignment(...)` constructions -/
inductive Built : World → List Asg → World → Prop
  | nil (w : World) : Built w [] w
  | cons {w w1 w2 : World} {a : Asg} {as : List Asg} : w.mkAssignment a = .ok w1 → Built w1 as w2 → Built w (a :: as) w2

theorem Built.append {w w1 w2 : World} {x y : List Asg} (h1 : Built w x w1) (h2 : Built w1 y w2) : Built w (x ++ y) w2 := by
  induction h1 with
  | nil => exact h2
  | cons hm _ ih => exact .cons hm (ih h2)

theorem assignOps_spec : ∀ (l : List Nat) (s s' : Store), assignOps s l = .ok s' →
    l.Nodup ∧ (∀ o ∈ l, s.stOf o ∈ assignable ∧ s'.stOf o = assigned) ∧ ∀ o, o ∉ l → s'.stOf o = s.stOf o := by
  intro l
  induction l with
  | nil => intro s s' h; simp [assignOps] at h; subst h; simp
  | cons r rs ih =>
    intro s s' h
    unfold assignOps at h
    split at h
    · cases h
    · rename_i s1 ht
      obtain ⟨hv, _, hself, hother⟩ := accepted_valid ht
      obtain ⟨nd, hin, hout⟩ := ih s1 s' h
      have hr : s.stOf r ∈ assignable := by
        revert hv; cases s.stOf r <;> simp [validNext, assignable]
      have hnot : r ∉ rs := by
        intro hm
        have := (hin r hm).1
        rw [hself] at this
        simp [assignable] at this
      refine ⟨List.nodup_cons.mpr ⟨hnot, nd⟩, ?_, ?_⟩
      · intro o ho
        rcases List.mem_cons.mp ho with rfl | ho
        · exact ⟨hr, by rw [hout _ hnot, hself]⟩
        · have hne : o ≠ r := fun e => hnot (e ▸ ho)
          exact ⟨by rw [← hother o hne]; exact (hin o ho).1, (hin o ho).2⟩
      · intro o ho
        simp only [List.mem_cons, not_or] at ho
        rw [hout o ho.2, hother o ho.1]

theorem mkAssignment_spec {w w' : World} {a : Asg} (h : w.mkAssignment a = .ok w') :
    a.ops ≠ [] ∧ 0 < a.cpu ∧ 0 < a.ram ∧ a.ops.Nodup ∧ (∀ o ∈ a.ops, w.store.stOf o ∈ assignable ∧ w'.store.stOf o = assigned) ∧
    (∀ o, o ∉ a.ops → w'.store.stOf o = w.store.stOf o) := by
  unfold World.mkAssignment at h
  split at h
  · cases h
  · rename_i h1
    split at h
    · cases h
    · rename_i h2
      split at h
      · cases h
      · rename_i h3
        split at h
        · cases h
        · rename_i s hs
          cases h
          obtain ⟨a1, a2, a3⟩ := assignOps_spec _ _ _ hs
          exact ⟨by simpa using h1, by simp at h2; omega, by simp at h3; omega, a1, a2, a3⟩

/-- **admissible by construction.**  Along a chain of accepted constructions no operator occurs twice (neither inside one assignment nor in two),
every operator was PENDING or FAILED when the chain started and is ASSIGNED when it ends, and every container asks for positive CPU and RAM. -/
theorem built_spec {w w' : World} {as : List Asg} (h : Built w as w') :
    (as.flatMap (·.ops)).Nodup ∧ (∀ a ∈ as, a.ops ≠ [] ∧ 0 < a.cpu ∧ 0 < a.ram) ∧
    (∀ o ∈ as.flatMap (·.ops), w.store.stOf o ∈ assignable ∧ w'.store.stOf o = assigned) ∧
    (∀ o, o ∉ as.flatMap (·.ops) → w'.store.stOf o = w.store.stOf o) := by
  induction h with
  | nil => simp
  | cons hm _ ih =>
    rename_i w w1 w2 a as _
    obtain ⟨m1, m2, m3, m4, m5, m6⟩ := mkAssignment_spec hm
    obtain ⟨i1, i2, i3, i4⟩ := ih
    have disj : ∀ o, o ∈ a.ops → o ∉ as.flatMap (·.ops) := by
      intro o ho hin
      have h1 := (m5 o ho).2
      have h2 := (i3 o hin).1
      rw [h1] at h2
      simp [assignable] at h2
    refine ⟨?_, ?_, ?_, ?_⟩
    · rw [List.flatMap_cons]
      exact List.nodup_append.mpr ⟨m4, i1, fun x hx y hy e => disj x hx (e ▸ hy)⟩
    · intro b hb
      rcases List.mem_cons.mp hb with rfl | hb
      · exact ⟨m1, m2, m3⟩
      · exact i2 b hb
    · intro o ho
      rw [List.flatMap_cons] at ho
      rcases List.mem_append.mp ho with ho | ho
      · exact ⟨(m5 o ho).1, by rw [i4 o (disj o ho)]; exact (m5 o ho).2⟩
      · have hna : o ∉ a.ops := fun hx => disj o hx ho
        exact ⟨by rw [← m6 o hna]; exact (i3 o ho).1, (i3 o ho).2⟩
    · intro o ho
      rw [List.flatMap_cons, List.mem_append, not_or] at ho
      rw [i4 o ho.2, m6 o ho.1]

end Eudoxia
