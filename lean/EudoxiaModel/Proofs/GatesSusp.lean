import EudoxiaModel.Proofs.WorldLive
/-! When the gates let the commands through — suspension requests included — the executor tick succeeds. -/
namespace Eudoxia
open OpState Extracted

theorem verifyAssignments_avail (cfg : Cfg) (p p' : Pool) (as : List Asg) (hc : p'.availC = p.availC) (hr : p'.availR = p.availR) :
    verifyAssignments cfg p' as = verifyAssignments cfg p as := by
  unfold verifyAssignments; rw [hc, hr]

/-- **a pool tick with suspension requests succeeds when its three gates pass** -/
theorem poolTick_succeeds_of_gates_susp {cfg : Cfg} {w : Store} {p : Pool} {n : Nat} {cm : Cmds}
    (g : PoolGoodMem cfg p n) (rd : PoolReadyF cfg w p) (ha : AsgsReady w cm.asgs) (hs : cm.susp.Nodup)
    (hnd : (ownP p ++ cm.asgs.flatMap (·.ops)).Nodup)
    (hv1 : cm.susp.isEmpty = true ∨ verifySuspends p cm.susp = .ok ())
    (hv2 : cm.asgs.isEmpty = true ∨ verifyAssignments cfg p cm.asgs = .ok ()) (hcnt : ∀ a ∈ cm.asgs, opCountOk cfg a = true) :
    ∃ w' p' n' res, poolTick cfg w p n cm = .ok (w', p', n', res) ∧ PoolReadyF cfg w' p' := by
  rcases poolTick_raises_only_at_the_gates g rd ha hs hnd with h | ⟨e, st, h, _⟩
  · exact h
  · exfalso
    unfold poolTick at h
    have hg1 : (if cm.susp.isEmpty then (Except.ok () : Except Err Unit) else verifySuspends p cm.susp) = .ok () := by
      rcases hv1 with hv | hv
      · simp [hv]
      · split
        · rfl
        · exact hv
    rw [hg1] at h
    simp only at h
    split at h
    · cases h
    · rename_i w1 p1 hph
      have havail : p1.availC = p.availC ∧ p1.availR = p.availR := by
        split at hph
        · simp only [Except.ok.injEq, Prod.mk.injEq] at hph
          obtain ⟨_, rfl⟩ := hph
          exact ⟨rfl, rfl⟩
        · cases hd : doSuspends cfg w p cm.susp with
          | error e' => simp [hd, Except.map] at hph
          | ok v =>
            obtain ⟨w1', p1'⟩ := v
            simp only [hd, Except.map, Except.ok.injEq, Prod.mk.injEq] at hph
            obtain ⟨_, rfl⟩ := hph
            obtain ⟨_, _, _, ec, er⟩ := doSuspends_inv cfg _ _ _ _ _ _ g.1.1 hd
            exact ⟨by simp [Pool.reconcile, ec], by simp [Pool.reconcile, er]⟩
      have hg2 : (if cm.asgs.isEmpty then (Except.ok () : Except Err Unit) else verifyAssignments cfg p1 cm.asgs) = .ok () := by
        rcases hv2 with hv | hv
        · simp [hv]
        · split
          · rfl
          · rw [verifyAssignments_avail cfg p p1 cm.asgs havail.1 havail.2]; exact hv
      rw [hg2] at h
      simp only at h
      obtain ⟨p2, n2, hst⟩ := startAll_no_error cfg w1 cm.asgs p1 n hcnt
      rw [hst] at h
      simp only at h
      split at h
      · cases h
      · cases h

/-- **the loop over the pools succeeds when every pool's gates pass** (suspension requests naming suspendable containers of that pool, batches that fit) -/
theorem execPools_succeeds_of_gates_susp (cfg : Cfg) (sus : List (Nat × Nat)) (asgs : List Asg) (hsus : ∀ i, ((sus.filter (·.1 == i)).map (·.2)).Nodup)
    (hcnt : ∀ a ∈ asgs, opCountOk cfg a = true) :
    ∀ (todo : List Pool) (s : Store) (n : Nat) (done : List Pool) (res : List Res), PoolsReady cfg asgs s n done todo →
    (∀ k p, todo[k]? = some p →
      ((cmdsFor (done.length + k) sus asgs).susp.isEmpty = true ∨ verifySuspends p (cmdsFor (done.length + k) sus asgs).susp = .ok ()) ∧
      ((cmdsFor (done.length + k) sus asgs).asgs.isEmpty = true ∨ verifyAssignments cfg p (cmdsFor (done.length + k) sus asgs).asgs = .ok ())) →
    ∃ s' ps n' res', execPools cfg sus asgs s n done todo res = .ok (s', ps, n', res') ∧ PoolsReady cfg asgs s' n' ps [] := by
  intro todo
  induction todo with
  | nil => intro s n done res hJ _; exact ⟨s, done, n, res, rfl, hJ⟩
  | cons p rest ih =>
    intro s n done res hJ hv
    obtain ⟨gp, _⟩ := hJ.live.pools p (by simp)
    obtain ⟨ha, hnd⟩ := poolsReady_head (sus := sus) hJ
    obtain ⟨v1, v2⟩ := hv 0 p (by simp)
    simp only [Nat.add_zero] at v1 v2
    obtain ⟨s1, p1, n1, r, hp, r1⟩ := poolTick_succeeds_of_gates_susp gp (hJ.rdy p (by simp)) ha (hsus done.length) hnd v1 v2
      (fun a haa => hcnt a (List.mem_filter.mp haa).1)
    have hJ1 := poolsReady_step hJ hp r1
    obtain ⟨s', ps, n', res', h2, r2⟩ := ih s1 n1 (done ++ [p1]) (res ++ r) hJ1 (by
      intro k q hq
      have := hv (k + 1) q (by simpa using hq)
      simp only [List.length_append, List.length_cons, List.length_nil, Nat.zero_add]
      have e : done.length + 1 + k = done.length + (k + 1) := by omega
      rw [e]; exact this)
    refine ⟨s', ps, n', res', ?_, r2⟩
    unfold execPools; rw [hp]; exact h2

/-- **if the gates let the commands through, the tick succeeds** — with suspension requests -/
theorem execTick_succeeds_of_gates_susp (w0 w1 : World) (asgs : List Asg) (sus : List (Nat × Nat))
    (hr : WorldReady w0) (hb : Built w0 asgs w1) (hseg : ∀ a ∈ asgs, ∀ r ∈ a.ops, w0.store.segsOf r ≠ [])
    (hpar : ∀ a ∈ asgs, ParentsOK w1.store a.ops) (hsus : ∀ i, ((sus.filter (·.1 == i)).map (·.2)).Nodup)
    (hpoolA : ∀ a ∈ asgs, a.pool < w1.pools.length) (hpoolS : ∀ x ∈ sus, x.1 < w1.pools.length)
    (hv : ∀ k p, w1.pools[k]? = some p →
      ((cmdsFor k sus asgs).susp.isEmpty = true ∨ verifySuspends p (cmdsFor k sus asgs).susp = .ok ()) ∧
      ((cmdsFor k sus asgs).asgs.isEmpty = true ∨ verifyAssignments w1.cfg p (cmdsFor k sus asgs).asgs = .ok ()))
    (hcnt : ∀ a ∈ asgs, opCountOk w1.cfg a = true) :
    ∃ w2 res, w1.execTick sus asgs = .ok (w2, res) ∧ WorldReady w2 ∧ w2.pipes = w1.pipes ∧ w2.cfg = w1.cfg ∧ Steps w1.store w2.store := by
  have hJ := poolsReady_of_built w0 w1 asgs hr hb hseg hpar
  obtain ⟨s, ps, n, res, hex, hfin⟩ := execPools_succeeds_of_gates_susp w1.cfg sus asgs hsus hcnt w1.pools w1.store w1.nextCid [] [] hJ
    (by intro k p hk; simpa using hv k p hk)
  have hno : (sus.any (fun s => decide (s.1 ≥ w1.pools.length)) || asgs.any (fun a => decide (a.pool ≥ w1.pools.length))) = false := by
    simp only [Bool.or_eq_false_iff, List.any_eq_false, decide_eq_true_eq]
    exact ⟨fun x hx => by have := hpoolS x hx; omega, fun a ha => by have := hpoolA a ha; omega⟩
  refine ⟨{ w1 with store := s, pools := ps, nextCid := n }, res, ?_, worldReady_of_poolsReady hfin, rfl, rfl, execPools_steps_ok _ _ _ _ _ _ _ _ _ _ _ _ hex⟩
  unfold World.execTick
  rw [hno]
  simp only [Bool.false_eq_true, ↓reduceIte, hex]

end Eudoxia
