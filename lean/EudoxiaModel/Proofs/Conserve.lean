import EudoxiaModel.Proofs.ExecSteps
/-! Pool CPU and RAM are conserved (C03): every phase of the pool tick preserves
    `avail + Σ allocation(active) + Σ allocation(suspending) = capacity`. -/
namespace Eudoxia
open OpState

/-- what identifies a container and its allocation -/
def key (c : Ctr) : Nat × Nat × Nat := (c.cid, c.cpu, c.ram)

theorem cpuSum_keys {l l' : List Ctr} (h : l'.map key = l.map key) : cpuSum l' = cpuSum l := by
  have : ∀ m : List Ctr, cpuSum m = ((m.map key).map (fun k => (k.2.1 : Int))).sum := by
    intro m; simp [cpuSum, key, List.map_map, Function.comp_def]
  rw [this, this, h]

theorem ramSum_keys {l l' : List Ctr} (h : l'.map key = l.map key) : ramSum l' = ramSum l := by
  have : ∀ m : List Ctr, ramSum m = ((m.map key).map (fun k => (k.2.2 : Int))).sum := by
    intro m; simp [ramSum, key, List.map_map, Function.comp_def]
  rw [this, this, h]

@[simp] theorem cpuSum_nil : cpuSum [] = 0 := rfl
@[simp] theorem ramSum_nil : ramSum [] = 0 := rfl
@[simp] theorem cpuSum_cons (c : Ctr) (l : List Ctr) : cpuSum (c :: l) = c.cpu + cpuSum l := by simp [cpuSum]
@[simp] theorem ramSum_cons (c : Ctr) (l : List Ctr) : ramSum (c :: l) = c.ram + ramSum l := by simp [ramSum]
@[simp] theorem cpuSum_append (l1 l2 : List Ctr) : cpuSum (l1 ++ l2) = cpuSum l1 + cpuSum l2 := by simp [cpuSum]
@[simp] theorem ramSum_append (l1 l2 : List Ctr) : ramSum (l1 ++ l2) = ramSum l1 + ramSum l2 := by simp [ramSum]

theorem cpuSum_filter_split (l : List Ctr) (f : Ctr → Bool) :
    cpuSum l = cpuSum (l.filter f) + cpuSum (l.filter (fun c => !f c)) := by
  induction l with
  | nil => simp
  | cons c l ih => by_cases h : f c <;> simp [List.filter_cons, h, ih] <;> omega

theorem ramSum_filter_split (l : List Ctr) (f : Ctr → Bool) :
    ramSum l = ramSum (l.filter f) + ramSum (l.filter (fun c => !f c)) := by
  induction l with
  | nil => simp
  | cons c l ih => by_cases h : f c <;> simp [List.filter_cons, h, ih] <;> omega

theorem ok_snd {ε α β γ : Type} {a a' : α} {b b' : β} {c c' : γ}
    (h : (Except.ok (a, b, c) : Except ε (α × β × γ)) = .ok (a', b', c')) : b = b' := by
  cases h; rfl

theorem sameButPos_key {c c' : Ctr} (h : c.SameButPos c') : key c' = key c := by
  unfold Ctr.SameButPos at h; rw [h]; rfl

/-- everything `runAt` can do to a container, in one statement -/
theorem runAt_spec {w w' : Store} {c c' : Ctr} {cons cons' : Int} {r : Nat} {last : Bool} {m : Nat}
    (h : runAt w c cons r last m = .ok (w', c', cons')) :
    key c' = key c ∧ c'.ops = c.ops ∧ c'.err = c.err ∧ c'.suspLeft = c.suspLeft ∧ c'.elapsed = c.elapsed ∧ c'.prio = c.prio ∧
    cons' = cons + ((c'.mem : Int) - (c.mem : Int)) ∧
    (c'.completed = true → c.completed = false → c'.mem = 0) ∧ (c.completed = true → c'.completed = true) ∧
    (c'.frozen = false → c'.mem ≤ c'.ram) ∧ (c'.frozen = true → c.frozen = false → c'.mem > c'.ram) ∧
    (c'.curOpIdx = c.curOpIdx ∨ c'.curOpIdx = c.curOpIdx + 1) ∧
    (c.completed = false → c'.frozen = false → (c'.canSuspend = true ↔ (c'.curOpIdx = c.curOpIdx + 1 ∧ c'.completed = false))) := by
  unfold runAt at h
  split at h
  · rename_i hgt
    cases h
    refine ⟨rfl, rfl, rfl, rfl, rfl, rfl, rfl, ?_, fun h => h, ?_, fun _ _ => hgt, Or.inl rfl, ?_⟩
    · intro h1 h2; rw [h1] at h2; cases h2
    · intro hf; cases hf
    · intro _ hf; cases hf
  · rename_i hle
    split at h
    · split at h
      · cases h
      · split at h
        · cases h
          refine ⟨rfl, rfl, rfl, rfl, rfl, rfl, by simp only []; omega, fun _ _ => rfl, fun _ => rfl, fun _ => Nat.zero_le _, ?_, Or.inr rfl, ?_⟩
          · intro hf hf'; simp only [] at hf; rw [hf'] at hf; cases hf
          · intro _ _; simp
        · cases h
          refine ⟨rfl, rfl, rfl, rfl, rfl, rfl, rfl, ?_, fun h => h, fun _ => by simp only []; omega, ?_, Or.inr rfl, ?_⟩
          · intro h1 h2; simp only [] at h1; rw [h2] at h1; cases h1
          · intro hf hf'; simp only [] at hf; rw [hf'] at hf; cases hf
          · intro hc _; simp only [true_iff]; exact ⟨trivial, hc⟩
    · cases h
      refine ⟨rfl, rfl, rfl, rfl, rfl, rfl, rfl, ?_, fun h => h, fun _ => by simp only []; omega, ?_, Or.inl rfl, ?_⟩
      · intro h1 h2; simp only [] at h1; rw [h2] at h1; cases h1
      · intro hf hf'; simp only [] at hf; rw [hf'] at hf; cases hf
      · intro _ _; simp

theorem advance_key (cfg : Cfg) (w : Store) (c : Ctr) (cons : Int) (w' : Store) (c' : Ctr) (cons' : Int)
    (h : advance cfg w c cons = .ok (w', c', cons')) : key c' = key c := by
  unfold advance at h
  split at h
  · rw [← ok_snd h]
  · split at h
    · cases h
    · rename_i w1 c1 hs
      have h1 := sameButPos_key (seek_spec _ _ _ _ _ hs).2.1
      unfold runTick at h
      split at h
      · rw [(runAt_spec h).1, h1]
      · cases h

theorem tick_key {cfg : Cfg} {w w' : Store} {c c' : Ctr} {cons cons' : Int}
    (h : c.tick cfg w cons = .ok (w', c', cons')) : key c' = key c := by
  unfold Ctr.tick at h
  split at h
  · rw [← ok_snd h]
  · split at h
    · cases h
    · rename_i hadv
      rw [← ok_snd h, ← advance_key _ _ _ _ _ _ _ hadv]; rfl

theorem kill_key {w w' : Store} {c c' : Ctr} {cons cons' : Int}
    (h : c.kill w cons = .ok (w', c', cons')) : key c' = key c := by
  unfold Ctr.kill at h
  split at h
  · cases h
  · rw [← ok_snd h]; rfl

theorem ok_snd2 {ε α β : Type} {a a' : α} {b b' : β}
    (h : (Except.ok (a, b) : Except ε (α × β)) = .ok (a', b')) : b = b' := by
  cases h; rfl

theorem suspend_key {cfg : Cfg} {w w' : Store} {c c' : Ctr}
    (h : c.suspend cfg w = .ok (w', c')) : key c' = key c := by
  unfold Ctr.suspend at h
  split at h
  · cases h
  · rw [← ok_snd2 h]; rfl

theorem suspendTick_key {w w' : Store} {c c' : Ctr}
    (h : c.suspendTick w = .ok (w', c')) : key c' = key c := by
  unfold Ctr.suspendTick at h
  split at h
  · split at h
    · cases h
    · rw [← ok_snd2 h]; rfl
  · rw [← ok_snd2 h]; rfl

theorem tickAll_keys (cfg : Cfg) : ∀ (l : List Ctr) (w : Store) (cons : Int) (w' : Store) (l' : List Ctr) (cons' : Int),
    tickAll cfg w l cons = .ok (w', l', cons') → l'.map key = l.map key := by
  intro l
  induction l with
  | nil => intro w cons w' l' cons' h; simp [tickAll] at h; rw [← h.2.1]
  | cons c cs ih =>
    intro w cons w' l' cons' h
    unfold tickAll at h
    split at h
    · cases h
    · rename_i ht
      split at h
      · cases h
      · rename_i hr
        rw [← ok_snd h]
        simp [tick_key ht, ih _ _ _ _ _ hr]

theorem killIndividual_keys : ∀ (l : List Ctr) (w : Store) (cons : Int) (w' : Store) (l' : List Ctr) (cons' : Int),
    killIndividual w l cons = .ok (w', l', cons') → l'.map key = l.map key := by
  intro l
  induction l with
  | nil => intro w cons w' l' cons' h; simp [killIndividual] at h; rw [← h.2.1]
  | cons c cs ih =>
    intro w cons w' l' cons' h
    unfold killIndividual at h
    split at h
    · split at h
      · cases h
      · rename_i hk
        split at h
        · cases h
        · rename_i hr
          rw [← ok_snd h]
          simp [kill_key hk, ih _ _ _ _ _ hr]
    · split at h
      · cases h
      · rename_i hr
        rw [← ok_snd h]
        simp [ih _ _ _ _ _ hr]

theorem suspTickList_keys : ∀ (l : List Ctr) (w : Store) (w' : Store) (l' : List Ctr),
    suspTickList w l = .ok (w', l') → l'.map key = l.map key := by
  intro l
  induction l with
  | nil => intro w w' l' h; simp [suspTickList] at h; rw [← h.2]
  | cons c cs ih =>
    intro w w' l' h
    unfold suspTickList at h
    split at h
    · cases h
    · rename_i hs
      split at h
      · cases h
      · rename_i hr
        rw [← ok_snd2 h]
        simp [suspendTick_key hs, ih _ _ _ hr]

theorem replaceCtr_keys (act : List Ctr) (v : Ctr)
    (h : ∀ k ∈ act.map key, k.1 = v.cid → k = key v) : (replaceCtr act v).map key = act.map key := by
  induction act with
  | nil => rfl
  | cons x xs ih =>
    have hx := h (key x) (by simp)
    have ih' := ih (fun k hk => h k (by simp [hk]))
    unfold replaceCtr at ih' ⊢
    simp only [List.map_cons]
    by_cases hc : x.cid == v.cid
    · have : key x = key v := hx (by simpa [key] using hc)
      simp only [hc, ↓reduceIte, this, ih']
    · simp only [hc, ih']; rfl

theorem killVictims_keys (capR : Nat) : ∀ (vs : List Ctr) (w : Store) (act : List Ctr) (cons : Int) (w' : Store) (act' : List Ctr) (cons' : Int),
    (∀ v ∈ vs, ∀ k ∈ act.map key, k.1 = v.cid → k = key v) →
    killVictims w capR act cons vs = .ok (w', act', cons') → act'.map key = act.map key := by
  intro vs
  induction vs with
  | nil => intro w act cons w' act' cons' _ h; simp [killVictims] at h; rw [← h.2.1]
  | cons v vs ih =>
    intro w act cons w' act' cons' hv h
    unfold killVictims at h
    split at h
    · rw [← ok_snd h]
    · split at h
      · cases h
      · rename_i w1 v1 cons1 hk
        have hkey : key v1 = key v := kill_key hk
        have hrep : (replaceCtr act v1).map key = act.map key := by
          apply replaceCtr_keys
          intro k hk1 hk2
          rw [hkey]
          apply hv v (by simp) k hk1
          rw [hk2]; have := congrArg (·.1) hkey; simpa [key] using this
        have := ih _ _ _ _ _ _ (by
          intro u hu k hk1 hk2
          rw [hrep] at hk1
          exact hv u (by simp [hu]) k hk1 hk2) h
        rw [this, hrep]

end Eudoxia
