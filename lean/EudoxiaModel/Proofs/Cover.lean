import EudoxiaModel.Proofs.CtrKeptS
import EudoxiaModel.Proofs.WorldDeadSusp
/-! No container is lost: every container a pool holds when a tick begins (running or being written out), and every container started in the tick, is found
    again when the tick ends — still in one of the pool's lists or among the results — under its number and with its operator list. -/
namespace Eudoxia
open OpState Extracted

/-- the container numbered `cid` with operator list `ops` is in one of the pool's lists or among the results -/
def Covered (cid : Nat) (ops : List Nat) (p : Pool) (res : List Res) : Prop :=
  (∃ c ∈ p.active ++ p.suspending ++ p.suspended, c.cid = cid ∧ c.ops = ops) ∨ (∃ r ∈ res, r.cid = cid ∧ r.ops = ops)

/-- phase 1 keeps every container: in the active list, or moved to the suspending list -/
theorem doSuspends_cover (cfg : Cfg) : ∀ (l : List Nat) (w : Store) (p : Pool) (n : Nat) (w' : Store) (p' : Pool),
    doSuspends cfg w p l = .ok (w', p') → PoolInv p n →
    (∀ c0 ∈ p.active ++ p.suspending, ∃ c ∈ p'.active ++ p'.suspending, c.cid = c0.cid ∧ c.ops = c0.ops) ∧ p'.suspended = p.suspended := by
  intro l
  induction l with
  | nil =>
    intro w p n w' p' h _
    simp only [doSuspends, Except.ok.injEq, Prod.mk.injEq] at h
    obtain ⟨_, rfl⟩ := h
    exact ⟨fun c0 hc0 => ⟨c0, hc0, rfl, rfl⟩, rfl⟩
  | cons k ks ih =>
    intro w p n w' p' h pinv
    unfold doSuspends at h
    split at h
    · cases h
    · rename_i c hfind
      split at h
      · cases h
      · rename_i w1 c1 hsus
        obtain ⟨e1, _⟩ := suspend_live cfg w c w1 c1 hsus
        have hcn : (cids p.active).Nodup := (List.nodup_append.mp pinv.nodup).1
        obtain ⟨hck, _, _, _⟩ := find_remove p.active k c hfind hcn
        have hcm : c ∈ p.active := by unfold findCtr at hfind; exact List.mem_of_find?_eq_some hfind
        have hone : doSuspends cfg w p [k] = .ok (w1, { p with suspending := p.suspending ++ [c1], active := p.active.filter (·.cid != k) }) := by
          simp only [doSuspends, hfind, hsus]
        obtain ⟨pinv1, _⟩ := doSuspends_inv cfg [k] w p n w1 _ pinv hone
        obtain ⟨i1, i2⟩ := ih w1 _ n w' p' h pinv1
        refine ⟨fun c0 hc0 => ?_, i2⟩
        have step : ∃ d ∈ p.active.filter (·.cid != k) ++ (p.suspending ++ [c1]), d.cid = c0.cid ∧ d.ops = c0.ops := by
          rcases List.mem_append.mp hc0 with h0 | h0
          · by_cases hk : c0.cid = k
            · have : c0 = c := eq_of_cid _ _ _ hcn h0 hcm (by rw [hk, hck])
              refine ⟨c1, by simp, ?_, ?_⟩
              · rw [e1, this]
              · rw [e1, this]
            · exact ⟨c0, List.mem_append_left _ (List.mem_filter.mpr ⟨h0, by simpa using hk⟩), rfl, rfl⟩
          · exact ⟨c0, List.mem_append_right _ (List.mem_append_left _ h0), rfl, rfl⟩
        obtain ⟨d, hd, d1, d2⟩ := step
        obtain ⟨c', hc', c1', c2'⟩ := i1 d hd
        exact ⟨c', hc', by rw [c1', d1], by rw [c2', d2]⟩

theorem suspTickList_cover : ∀ (l : List Ctr) (w : Store) (w' : Store) (l' : List Ctr),
    suspTickList w l = .ok (w', l') → ∀ c0 ∈ l, ∃ c ∈ l', c.cid = c0.cid ∧ c.ops = c0.ops := by
  intro l
  induction l with
  | nil => intro w w' l' _ c0 hc0; cases hc0
  | cons c cs ih =>
    intro w w' l' h c0 hc0
    unfold suspTickList at h
    split at h
    · cases h
    · rename_i w1 c1 hs
      split at h
      · cases h
      · rename_i w2 cs2 hr
        simp only [Except.ok.injEq, Prod.mk.injEq] at h
        obtain ⟨_, rfl⟩ := h
        obtain ⟨e, _⟩ := suspendTick_live w c w1 c1 hs
        rcases List.mem_cons.mp hc0 with rfl | hc0
        · exact ⟨c1, by simp, by rw [e], by rw [e]⟩
        · obtain ⟨d, hd, d1, d2⟩ := ih _ _ _ hr c0 hc0
          exact ⟨d, List.mem_cons_of_mem _ hd, d1, d2⟩

/-- phase 3 keeps every container that is being written out: still in the suspending list, or handed over to the suspended list -/
theorem suspTickAll_cover {w w' : Store} {p p' : Pool} (h : suspTickAll w p = .ok (w', p')) :
    (∀ c0 ∈ p.suspending, ∃ c ∈ p'.suspending ++ p'.suspended, c.cid = c0.cid ∧ c.ops = c0.ops) ∧ (∀ c ∈ p.suspended, c ∈ p'.suspended) ∧
      p'.active = p.active := by
  unfold suspTickAll at h
  split at h
  · cases h
  · rename_i w1 l hl
    simp only [Except.ok.injEq, Prod.mk.injEq] at h
    obtain ⟨_, rfl⟩ := h
    refine ⟨fun c0 hc0 => ?_, fun c hc => List.mem_append_left _ hc, rfl⟩
    obtain ⟨c, hc, c1, c2⟩ := suspTickList_cover _ _ _ _ hl c0 hc0
    refine ⟨c, ?_, c1, c2⟩
    by_cases hz : c.suspLeft == 0
    · exact List.mem_append_right _ (List.mem_append_right _ (List.mem_filter.mpr ⟨hc, hz⟩))
    · exact List.mem_append_left _ (List.mem_filter.mpr ⟨hc, by simpa using hz⟩)

/-- a container keeps its operator list under its number: the property the ticks and kills preserve -/
def OpsOf (L0 : List Ctr) (c : Ctr) : Prop := ∀ c0 ∈ L0, c0.cid = c.cid → c.ops = c0.ops

theorem key_cid {c c' : Ctr} (h : key c' = key c) : c'.cid = c.cid := by
  unfold key at h
  exact (Prod.mk.injEq _ _ _ _ ▸ h).1

theorem opsOf_kept (cfg : Cfg) (L0 : List Ctr) : Kept cfg (OpsOf L0) :=
  ⟨fun _ _ _ _ _ _ h hc c0 hc0 e => by rw [tick_ops h]; exact hc c0 hc0 (by rw [e, key_cid (tick_key h)]),
   fun w c cons w' c' cons' h hc c0 hc0 e => by rw [(kill_live w c cons w' c' cons' h).1]; exact hc c0 hc0 (by rw [e, key_cid (kill_key h)])⟩

theorem mem_of_map_key {l l' : List Ctr} (h : l'.map key = l.map key) {c0 : Ctr} (hc0 : c0 ∈ l) : ∃ c ∈ l', c.cid = c0.cid := by
  have : key c0 ∈ l'.map key := by rw [h]; exact List.mem_map_of_mem hc0
  obtain ⟨c, hc, e⟩ := List.mem_map.mp this
  exact ⟨c, hc, key_cid e⟩

/-- phases 3–6 lose no container -/
theorem poolRun_cover {cfg : Cfg} {w w' : Store} {p p' : Pool} {n : Nat} {res : List Res} (pinv : PoolInv p n)
    (h : poolRun cfg w p = .ok (w', p', res)) :
    (∀ c0 ∈ p.active ++ p.suspending, Covered c0.cid c0.ops p' res) ∧ (∀ c ∈ p.suspended, c ∈ p'.suspended) ∧
    (∀ c0 ∈ p.active, (∃ c ∈ p'.active, c.cid = c0.cid ∧ c.ops = c0.ops) ∨ (∃ r ∈ res, r.cid = c0.cid ∧ r.ops = c0.ops)) := by
  have hcnA : (cids p.active).Nodup := (List.nodup_append.mp pinv.nodup).1
  obtain ⟨kA, kR⟩ := poolRun_keptS (opsOf_kept cfg p.active) pinv (fun c hc c0 hc0 e => by rw [eq_of_cid _ _ _ hcnA hc0 hc e]) h
  unfold poolRun at h
  split at h
  · cases h
  · rename_i w3 p3 h3
    obtain ⟨pinv3, _, _, _, _, act3⟩ := suspTickAll_inv pinv h3
    obtain ⟨s1, s2, _⟩ := suspTickAll_cover h3
    split at h
    · cases h
    · rename_i w4 act4 cons4 h4
      have hk4 := tickAll_keys _ _ _ _ _ _ _ h4
      have hcn4 : (cids act4).Nodup := by rw [cids_keys hk4]; exact (List.nodup_append.mp pinv3.nodup).1
      split at h
      · cases h
      · rename_i w5 p5 h5
        obtain ⟨k1, k2, k3, _⟩ := oomKiller_keys (p := { p3 with active := act4, consumed := cons4 }) hcn4 h5
        simp only at k1 k2 k3
        simp only [Except.ok.injEq, Prod.mk.injEq] at h
        obtain ⟨_, hp', hr⟩ := h
        obtain ⟨f1, f2, _⟩ := collect_fields p5
        have f3 := (collect_suspended p5).1
        have hact : ∀ c0 ∈ p.active, (∃ c ∈ p'.active, c.cid = c0.cid ∧ c.ops = c0.ops) ∨ (∃ r ∈ res, r.cid = c0.cid ∧ r.ops = c0.ops) := by
          intro c0 h0
          -- a running container: same place in the list after the ticks and the kills, then kept or reported
          have hk : p5.active.map key = p.active.map key := by rw [k1, hk4, act3]
          obtain ⟨c5, hc5, e5⟩ := mem_of_map_key hk h0
          by_cases hcomp : c5.completed = true
          · right
            refine ⟨mkRes c5, by rw [← hr]; simp only [collect]; exact List.mem_map_of_mem (List.mem_filter.mpr ⟨hc5, hcomp⟩), e5, ?_⟩
            obtain ⟨c', q', e'⟩ := kR (mkRes c5) (by rw [← hr]; simp only [collect]; exact List.mem_map_of_mem (List.mem_filter.mpr ⟨hc5, hcomp⟩))
            have hops : (mkRes c5).ops = c'.ops := by rw [e']; rfl
            have hcid : (mkRes c5).cid = c'.cid := by rw [e']; rfl
            rw [hops]
            exact q' c0 h0 (by rw [← hcid]; exact e5.symm)
          · left
            have hin : c5 ∈ p'.active := by rw [← hp', f1]; exact List.mem_filter.mpr ⟨hc5, by simpa using hcomp⟩
            exact ⟨c5, hin, e5, kA c5 hin c0 h0 e5.symm⟩
        refine ⟨fun c0 hc0 => ?_, fun c hc => by rw [← hp', f3, k3]; exact s2 c hc, hact⟩
        rcases List.mem_append.mp hc0 with h0 | h0
        · rcases hact c0 h0 with ⟨c, hc, c1, c2⟩ | hres
          · exact Or.inl ⟨c, List.mem_append_left _ (List.mem_append_left _ hc), c1, c2⟩
          · exact Or.inr hres
        · left
          obtain ⟨c, hc, c1, c2⟩ := s1 c0 h0
          refine ⟨c, ?_, c1, c2⟩
          rw [← hp']
          rcases List.mem_append.mp hc with hc | hc
          · exact List.mem_append_left _ (List.mem_append_right _ (by rw [f2, k2]; exact hc))
          · exact List.mem_append_right _ (by rw [f3, k3]; exact hc)

theorem startAll_cover (cfg : Cfg) (w : Store) : ∀ (as : List Asg) (p : Pool) (n : Nat) (p' : Pool) (n' : Nat),
    startAll cfg w p n as = .ok (p', n') →
    (∀ c ∈ p.active, c ∈ p'.active) ∧ (∀ a ∈ as, ∃ c ∈ p'.active, c.ops = a.ops) ∧ p'.suspending = p.suspending ∧ p'.suspended = p.suspended := by
  intro as
  induction as with
  | nil =>
    intro p n p' n' h
    simp only [startAll, Except.ok.injEq, Prod.mk.injEq] at h
    obtain ⟨rfl, _⟩ := h
    exact ⟨fun c hc => hc, fun a ha => (by cases ha), rfl, rfl⟩
  | cons a as ih =>
    intro p n p' n' h
    unfold startAll at h
    split at h
    · cases h
    · obtain ⟨i1, i2, i3, i4⟩ := ih _ _ _ _ h
      refine ⟨fun c hc => i1 c (List.mem_append_left _ hc), fun b hb => ?_, i3, i4⟩
      rcases List.mem_cons.mp hb with rfl | hb
      · exact ⟨mkCtr w n b, i1 _ (by simp), rfl⟩
      · exact i2 b hb

/-- **a whole pool tick loses no container** -/
theorem poolTick_cover {cfg : Cfg} {w w' : Store} {p p' : Pool} {n n' : Nat} {cm : Cmds} {res : List Res} (g : PoolGoodMem cfg p n)
    (h : poolTick cfg w p n cm = .ok (w', p', n', res)) :
    (∀ c0 ∈ p.active ++ p.suspending, Covered c0.cid c0.ops p' res) ∧
    (∀ a ∈ cm.asgs, (∃ c ∈ p'.active, c.ops = a.ops) ∨ (∃ r ∈ res, r.ops = a.ops)) ∧
    (∀ c ∈ p.suspended, c ∈ p'.suspended) := by
  unfold poolTick at h
  split at h
  · cases h
  · split at h
    · cases h
    · rename_i w1 p1 hph
      have hc1 : (∀ c0 ∈ p.active ++ p.suspending, ∃ c ∈ p1.active ++ p1.suspending, c.cid = c0.cid ∧ c.ops = c0.ops) ∧ p1.suspended = p.suspended := by
        split at hph
        · simp only [Except.ok.injEq, Prod.mk.injEq] at hph
          obtain ⟨_, rfl⟩ := hph
          exact ⟨fun c0 hc0 => ⟨c0, hc0, rfl, rfl⟩, rfl⟩
        · cases hd : doSuspends cfg w p cm.susp with
          | error e' => simp [hd, Except.map] at hph
          | ok v =>
            obtain ⟨w1', p1'⟩ := v
            simp only [hd, Except.map, Except.ok.injEq, Prod.mk.injEq] at hph
            obtain ⟨_, rfl⟩ := hph
            have := doSuspends_cover cfg _ _ _ _ _ _ hd g.1.1
            simpa [Pool.reconcile] using this
      obtain ⟨g1, _, _⟩ := susPhase_inv g.1 hph
      split at h
      · cases h
      · split at h
        · cases h
        · rename_i p2 n2 hst
          split at h
          · cases h
          · rename_i w6 p6 res6 hr
            simp only [Except.ok.injEq, Prod.mk.injEq] at h
            obtain ⟨_, rfl, _, rfl⟩ := h
            obtain ⟨i2, _⟩ := (startAll_inv cfg w1 cm.asgs p1 n g1.1).1 _ _ hst
            obtain ⟨t1, t2, t3, t4⟩ := startAll_cover cfg w1 cm.asgs p1 n p2 n2 hst
            obtain ⟨r1, r2, r3⟩ := poolRun_cover i2 hr
            refine ⟨fun c0 hc0 => ?_, fun a ha => ?_, fun c hc => r2 c (by rw [t4, hc1.2]; exact hc)⟩
            · obtain ⟨c, hc, c1, c2⟩ := hc1.1 c0 hc0
              have hc' : c ∈ p2.active ++ p2.suspending := by
                rcases List.mem_append.mp hc with hc | hc
                · exact List.mem_append_left _ (t1 c hc)
                · exact List.mem_append_right _ (by rw [t3]; exact hc)
              have := r1 c hc'
              rw [c1, c2] at this
              exact this
            · obtain ⟨c, hc, e⟩ := t2 a ha
              rcases r3 c hc with ⟨d, hd, _, d2⟩ | ⟨r, hrr, _, r2'⟩
              · exact Or.inl ⟨d, hd, by rw [d2, e]⟩
              · exact Or.inr ⟨r, hrr, by rw [r2', e]⟩

/-- … in one of the lists of one of the pools, or among the results -/
def CoveredW (cid : Nat) (ops : List Nat) (ps : List Pool) (res : List Res) : Prop :=
  (∃ q ∈ ps, ∃ c ∈ q.active ++ q.suspending ++ q.suspended, c.cid = cid ∧ c.ops = ops) ∨ (∃ r ∈ res, r.cid = cid ∧ r.ops = ops)

/-- the loop over the pools loses no container -/
theorem execPools_cover (cfg : Cfg) (sus : List (Nat × Nat)) (asgs : List Asg) :
    ∀ (todo : List Pool) (s : Store) (n : Nat) (done : List Pool) (res : List Res) (s' : Store) (ps : List Pool) (n' : Nat) (res' : List Res),
    (∀ p ∈ todo, ∃ m, m ≤ n ∧ PoolGoodMem cfg p m) → execPools cfg sus asgs s n done todo res = .ok (s', ps, n', res') →
    (∀ p ∈ todo, ∀ c0 ∈ p.active ++ p.suspending, CoveredW c0.cid c0.ops ps res') ∧
    (∀ a ∈ asgs, done.length ≤ a.pool → a.pool < done.length + todo.length →
      (∃ q ∈ ps, ∃ c ∈ q.active, c.ops = a.ops) ∨ ∃ r ∈ res', r.ops = a.ops) ∧
    (∀ q ∈ done, q ∈ ps) ∧ (∀ r ∈ res, r ∈ res') := by
  intro todo
  induction todo with
  | nil =>
    intro s n done res s' ps n' res' _ h
    simp only [execPools, Except.ok.injEq, Prod.mk.injEq] at h
    obtain ⟨_, rfl, _, rfl⟩ := h
    exact ⟨fun p hp => (by cases hp), fun a _ h1 h2 => (by simp only [List.length_nil, Nat.add_zero] at h2; omega), fun q hq => hq, fun r hr => hr⟩
  | cons p rest ih =>
    intro s n done res s' ps n' res' hg h
    unfold execPools at h
    split at h
    · cases h
    · cases h
    · rename_i s1 p1 n1 r hpt
      obtain ⟨m, hm, gm⟩ := hg p (by simp)
      have gp : PoolGoodMem cfg p n := ⟨⟨gm.1.1.mono hm, gm.1.2⟩, gm.2⟩
      obtain ⟨hle1, _⟩ := poolTick_cids gp hpt
      obtain ⟨t1, t2, _⟩ := poolTick_cover gp hpt
      obtain ⟨iA, iB, iC, iD⟩ := ih s1 n1 (done ++ [p1]) (res ++ r) s' ps n' res'
        (fun q hq => let ⟨m', hm', gm'⟩ := hg q (List.mem_cons_of_mem _ hq); ⟨m', by omega, gm'⟩) h
      have hp1 : p1 ∈ ps := iC p1 (by simp)
      refine ⟨fun q hq c0 hc0 => ?_, fun a ha h1 h2 => ?_, fun q hq => iC q (List.mem_append_left _ hq), fun x hx => iD x (List.mem_append_left _ hx)⟩
      · rcases List.mem_cons.mp hq with rfl | hq
        · rcases t1 c0 hc0 with ⟨c, hc, c1, c2⟩ | ⟨x, hx, x1, x2⟩
          · exact Or.inl ⟨p1, hp1, c, hc, c1, c2⟩
          · exact Or.inr ⟨x, iD x (List.mem_append_right _ hx), x1, x2⟩
        · exact iA q hq c0 hc0
      · by_cases hk : a.pool = done.length
        · have hin : a ∈ (cmdsFor done.length sus asgs).asgs := by
            show a ∈ asgs.filter (·.pool == done.length)
            exact List.mem_filter.mpr ⟨ha, by simpa using hk⟩
          rcases t2 a hin with ⟨c, hc, e⟩ | ⟨x, hx, e⟩
          · exact Or.inl ⟨p1, hp1, c, hc, e⟩
          · exact Or.inr ⟨x, iD x (List.mem_append_right _ hx), e⟩
        · apply iB a ha
          · simp only [List.length_append, List.length_cons, List.length_nil]; omega
          · simp only [List.length_append, List.length_cons, List.length_nil] at h2 ⊢; omega

/-- **an executor tick loses no container**: every container running or being written out when the tick begins, and every assignment of the tick, is found
again at its end — in a list of some pool or among the results — with the same operator list -/
theorem execTick_cover {w w2 : World} {sus : List (Nat × Nat)} {asgs : List Asg} {res : List Res} (hg : ∀ p ∈ w.pools, PoolGoodMem w.cfg p w.nextCid)
    (hx : w.execTick sus asgs = .ok (w2, res)) :
    (∀ p ∈ w.pools, ∀ c0 ∈ p.active ++ p.suspending, CoveredW c0.cid c0.ops w2.pools res) ∧
    (∀ a ∈ asgs, (∃ q ∈ w2.pools, ∃ c ∈ q.active, c.ops = a.ops) ∨ ∃ r ∈ res, r.ops = a.ops) := by
  unfold World.execTick at hx
  split at hx
  · cases hx
  · rename_i hno
    split at hx
    · cases hx
    · cases hx
    · rename_i s ps n rr hexp
      simp only [Except.ok.injEq, Prod.mk.injEq] at hx
      obtain ⟨rfl, rfl⟩ := hx
      obtain ⟨cA, cB, _, _⟩ := execPools_cover w.cfg sus asgs w.pools w.store w.nextCid [] [] s ps n rr
        (fun p hp => ⟨w.nextCid, Nat.le_refl _, hg p hp⟩) hexp
      refine ⟨cA, fun a ha => cB a ha (by simp) ?_⟩
      simp only [Bool.or_eq_true, List.any_eq_true, decide_eq_true_eq, not_or, not_exists, not_and] at hno
      have := hno.2 a ha
      simp only [List.length_nil, Nat.zero_add]
      omega

end Eudoxia
