import EudoxiaModel.Proofs.PriorityLoop
import EudoxiaModel.Proofs.WorldDead
/-! The priority-pool scheduler (multi-operator containers) in closed loop with the executor: the loop never raises.
    (With single-operator containers the shipped scheduler does raise: known finding D11.) -/
namespace Eudoxia.PP
open Eudoxia Eudoxia.Prio OpState Extracted

/-- a waiting job that may be handed to a container right now: operators that exist, have a segment, are PENDING or FAILED, each at most once, in dependency order -/
structure JobOKm (w : World) (j : Job) : Prop where
  ne : j.ops ≠ []
  nd : j.ops.Nodup
  ok : ∀ o ∈ j.ops, o < w.store.st.size ∧ w.store.stOf o ∈ assignable ∧ w.store.segsOf o ≠ []
  par : ParentsOK w.store j.ops
  retry : ∀ rs, j.retry = some rs → 0 < rs.oldCpu ∧ 0 < rs.oldRam

structure JobsOKm (w : World) (js : List Job) : Prop where
  nd : (js.flatMap (·.ops)).Nodup
  ok : ∀ j ∈ js, JobOKm w j

theorem jobsOKm_push {w : World} {st : St} {j : Job} (p : Nat) (h : JobsOKm w st.jobs) (hj : JobOKm w j)
    (hnew : ∀ o ∈ j.ops, o ∉ st.jobs.flatMap (·.ops)) : JobsOKm w (st.push j p).jobs := by
  refine ⟨?_, ?_⟩
  · apply (push_ops_perm st j p).nodup_iff.mpr
    rw [List.nodup_append]
    exact ⟨h.nd, hj.nd, fun a ha b hb e => by subst e; exact hnew a hb ha⟩
  · intro x hx
    rcases (mem_push st j p x).mp hx with hx | rfl
    · exact h.ok x hx
    · exact hj

theorem jobOKm_keep {w w' : World} {j : Job} (hs : Steps w.store w'.store) (he : ∀ o ∈ j.ops, w'.store.stOf o = w.store.stOf o) (h : JobOKm w j) : JobOKm w' j :=
  ⟨h.ne, h.nd, fun o ho => ⟨by rw [hs.size]; exact (h.ok o ho).1, by rw [he o ho]; exact (h.ok o ho).2.1,
      by unfold Store.segsOf; rw [hs.ops]; exact (h.ok o ho).2.2⟩,
    parentsOK_frame h.par hs.ops (fun q hq => completed_final hs q hq), h.retry⟩

/-- dropping a COMPLETED prefix keeps a list in dependency order -/
theorem parentsOK_drop {s : Store} {l : List Nat} (h : ParentsOK s l) (i : Nat) (hp : ∀ o ∈ l.take i, s.stOf o = completed) : ParentsOK s (l.drop i) := by
  intro pre o post e q hq
  have e' : l = (l.take i ++ pre) ++ o :: post := by
    rw [List.append_assoc, ← e, List.take_append_drop]
  rcases h (l.take i ++ pre) o post e' q hq with h1 | h1
  · exact Or.inl h1
  · rcases List.mem_append.mp h1 with h2 | h2
    · exact Or.inl (hp q h2)
    · exact Or.inr h2

/-- what a failed container leaves to be retried: exactly its unfinished suffix -/
theorem nonCompleted_dead (w : World) (c : Ctr) (f : Fin w.store c) (hc : c.completed = true) (he : c.err = true) :
    nonCompleted w c.ops = c.unfinished := by
  unfold nonCompleted
  conv => lhs; rw [← List.take_append_drop c.curOpIdx c.ops]
  rw [List.filter_append]
  have h1 : (c.ops.take c.curOpIdx).filter (fun r => w.store.stOf r != completed) = [] := by
    rw [List.filter_eq_nil_iff]
    intro o ho
    simp [f.pre o ho]
  have h2 : (c.ops.drop c.curOpIdx).filter (fun r => w.store.stOf r != completed) = c.ops.drop c.curOpIdx := by
    rw [List.filter_eq_self]
    intro o ho
    have := (f.dead hc he).2 o ho
    simp [this]
  rw [h1, h2]; rfl

/-! ### the static facts about containers the scheduler relies on when it retries their work -/

/-- operators that exist, have a segment, belong to pipelines that have arrived (`F` = pipelines still to arrive), each once, in dependency order;
a positive allocation -/
def Good (F : List Nat) (s : Store) (c : Ctr) : Prop :=
  c.ops.Nodup ∧ (∀ o ∈ c.ops, o < s.st.size ∧ s.segsOf o ≠ [] ∧ s.pidOf o ∉ F) ∧ ParentsOK s c.ops ∧ 0 < c.cpu ∧ 0 < c.ram

theorem good_mono {F F' : List Nat} {s s' : Store} {c : Ctr} (h : Good F s c) (hs : Steps s s') (hF : ∀ x ∈ F', x ∈ F) : Good F' s' c := by
  obtain ⟨h1, h2, h3, h4, h5⟩ := h
  refine ⟨h1, fun o ho => ?_, parentsOK_frame h3 hs.ops (fun q hq => completed_final hs q hq), h4, h5⟩
  obtain ⟨a, b, c'⟩ := h2 o ho
  exact ⟨by rw [hs.size]; exact a, by unfold Store.segsOf; rw [hs.ops]; exact b, fun hx => c' (by unfold Store.pidOf at hx ⊢; rw [hs.ops] at hx; exact hF _ hx)⟩

theorem good_of_same {F : List Nat} {s : Store} {c c' : Ctr} (ho : c'.ops = c.ops) (hk : key c' = key c) (h : Good F s c) : Good F s c' := by
  have hc : c'.cpu = c.cpu := by have := congrArg (fun k => k.2.1) hk; simpa [key] using this
  have hr : c'.ram = c.ram := by have := congrArg (fun k => k.2.2) hk; simpa [key] using this
  unfold Good
  rw [ho, hc, hr]
  exact h

theorem good_kept (cfg : Cfg) (F : List Nat) (s : Store) : Kept cfg (Good F s) :=
  ⟨fun _ _ _ _ _ _ h hc => good_of_same (tick_ops h) (tick_key h) hc,
   fun w c cons w' c' cons' h hc => good_of_same (kill_live w c cons w' c' cons' h).1 (kill_key h) hc⟩

/-! ### `ppEnqueue` -/

theorem filter_failed (cs : List Ctr) : (cs.map mkRes).filter (fun r => !r.ok) = (cs.filter (·.err)).map mkRes := by
  induction cs with
  | nil => rfl
  | cons c cs ih =>
    simp only [List.map_cons, List.filter_cons, ih]
    cases h : c.err <;> simp [mkRes, h]

/-- queueing the pipelines that have just arrived -/
theorem enqNew_ok (w : World) (wf : w.WFP) (hs : w.SegsOK) (hpid : w.PidOK) (htopo : w.Topo) (Q0 : List Nat) :
    ∀ (l done : List Nat) (s : St), l.Nodup → (∀ x ∈ l, x ∉ done) → JobsOKm w s.jobs →
    (∀ o ∈ s.jobs.flatMap (·.ops), o ∈ Q0 ∨ (w.store.pidOf o ∈ done ∧ w.store.stOf o = pending)) →
    (∀ pid ∈ l, (w.pipes.getD pid default).order ≠ [] ∧ ∀ o ∈ (w.pipes.getD pid default).order, w.store.stOf o = pending) →
    (∀ o ∈ Q0, w.store.pidOf o ∉ l) →
    JobsOKm w (l.foldl (fun st pid => st.push { prio := w.prioOf pid, pid := pid, ops := (w.pipes.getD pid default).order } (w.prioOf pid)) s).jobs ∧
    (∀ o ∈ (l.foldl (fun st pid => st.push { prio := w.prioOf pid, pid := pid, ops := (w.pipes.getD pid default).order } (w.prioOf pid)) s).jobs.flatMap (·.ops),
        o ∈ Q0 ∨ (w.store.pidOf o ∈ done ++ l ∧ w.store.stOf o = pending)) ∧
    (l.foldl (fun st pid => st.push { prio := w.prioOf pid, pid := pid, ops := (w.pipes.getD pid default).order } (w.prioOf pid)) s).susp = s.susp := by
  intro l
  induction l with
  | nil => intro done s _ _ hj hq _ _; exact ⟨hj, by simpa using hq, rfl⟩
  | cons pid rest ih =>
    intro done s hnd hd hj hq hfresh hQ
    simp only [List.foldl_cons]
    obtain ⟨hne, hpend⟩ := hfresh pid (by simp)
    have hjob : JobOKm w { prio := w.prioOf pid, pid := pid, ops := (w.pipes.getD pid default).order } := by
      refine ⟨hne, (wf pid).1, fun o ho => ⟨(wf pid).2 o ho, by rw [hpend o ho]; simp [assignable], hs pid o ho⟩, ?_, by intro rs h; cases h⟩
      intro pre o post e q hq'
      exact Or.inr (htopo pid pre o post e q hq')
    have hnew : ∀ o ∈ (w.pipes.getD pid default).order, o ∉ s.jobs.flatMap (·.ops) := by
      intro o ho hin
      have hp : w.store.pidOf o = pid := hpid pid o ho
      rcases hq o hin with h | h
      · exact hQ o h (by rw [hp]; simp)
      · rw [hp] at h; exact hd pid (by simp) h.1
    have hj1 := jobsOKm_push (w.prioOf pid) hj hjob hnew
    obtain ⟨r1, r2, r3⟩ := ih (done ++ [pid]) _ (List.nodup_cons.mp hnd).2 (by
        intro x hx hc
        rcases List.mem_append.mp hc with hc | hc
        · exact hd x (List.mem_cons_of_mem _ hx) hc
        · simp at hc; subst hc; exact (List.nodup_cons.mp hnd).1 hx) hj1 (by
        intro o ho
        rcases List.mem_append.mp ((push_ops_perm s _ _).mem_iff.mp ho) with h | h
        · rcases hq o h with h' | h'
          · exact Or.inl h'
          · exact Or.inr ⟨List.mem_append_left _ h'.1, h'.2⟩
        · exact Or.inr ⟨by rw [hpid pid o h]; simp, hpend o h⟩)
      (fun x hx => hfresh x (List.mem_cons_of_mem _ hx)) (fun o ho hx => hQ o ho (List.mem_cons_of_mem _ hx))
    refine ⟨r1, ?_, by rw [r3, push_susp]⟩
    intro o ho
    rcases r2 o ho with h | h
    · exact Or.inl h
    · exact Or.inr ⟨by simpa [List.append_assoc] using h.1, h.2⟩

/-- the step of `ppEnqueue`'s loop over the failed results -/
def failStep (w : World) (st : St) (f : Res) : Except Err St :=
  match nonCompleted w f.ops with
  | [] => .error .schedAssert
  | o :: _ => .ok (st.push { prio := f.prio, pid := w.store.pidOf o, ops := nonCompleted w f.ops, retry := some (retryOf f) } f.prio)

/-- queueing the unfinished work of the containers that failed -/
theorem enqFail_ok (w : World) (F : List Nat) (Q0 : List Nat) :
    ∀ (fs donefs : List Ctr) (s : St),
    (∀ c ∈ fs, Fin w.store c ∧ c.completed = true ∧ c.err = true ∧ Good F w.store c) →
    (allUnf (donefs ++ fs)).Nodup → JobsOKm w s.jobs →
    (∀ o ∈ s.jobs.flatMap (·.ops), o ∈ Q0 ∨ w.store.stOf o = pending ∨ o ∈ allUnf donefs) →
    (∀ o ∈ allUnf fs, o ∉ Q0) →
    ∃ s', (fs.map mkRes).foldlM (failStep w) s = .ok s' ∧ JobsOKm w s'.jobs ∧
      (∀ o ∈ s'.jobs.flatMap (·.ops), o ∈ Q0 ∨ w.store.stOf o = pending ∨ o ∈ allUnf (donefs ++ fs)) ∧ s'.susp = s.susp := by
  intro fs
  induction fs with
  | nil => intro donefs s _ _ hj hq _; exact ⟨s, rfl, hj, by simpa using hq, rfl⟩
  | cons c fs ih =>
    intro donefs s hfs hnd hj hq hQ
    obtain ⟨fc, hcc, hce, hg⟩ := hfs c (by simp)
    obtain ⟨g1, g2, g3, g4, g5⟩ := hg
    have hU : nonCompleted w (mkRes c).ops = c.unfinished := nonCompleted_dead w c fc hcc hce
    obtain ⟨hne, hfailed⟩ := fc.dead hcc hce
    obtain ⟨o, os, hcons⟩ := List.exists_cons_of_ne_nil hne
    have hstep : failStep w s (mkRes c) = .ok (s.push { prio := (mkRes c).prio, pid := w.store.pidOf o, ops := c.unfinished, retry := some (retryOf (mkRes c)) } (mkRes c).prio) := by
      unfold failStep
      rw [hU, hcons]
    have hsub : ∀ x ∈ c.unfinished, x ∈ c.ops := fun x hx => (List.drop_sublist _ _).subset hx
    have hjob : JobOKm w { prio := (mkRes c).prio, pid := w.store.pidOf o, ops := c.unfinished, retry := some (retryOf (mkRes c)) } := by
      refine ⟨hne, unfinished_nodup g1, fun x hx => ⟨(g2 x (hsub x hx)).1, by rw [hfailed x hx]; simp [assignable], (g2 x (hsub x hx)).2.1⟩,
        parentsOK_drop g3 c.curOpIdx fc.pre, ?_⟩
      intro rs hrs
      simp only [Option.some.injEq] at hrs
      rw [← hrs]
      exact ⟨g4, g5⟩
    have hnd' := hnd
    rw [allUnf_append, allUnf_cons] at hnd'
    have hnew : ∀ x ∈ c.unfinished, x ∉ s.jobs.flatMap (·.ops) := by
      intro x hx hin
      rcases hq x hin with h | h | h
      · exact hQ x (by rw [allUnf_cons]; exact List.mem_append_left _ hx) h
      · rw [hfailed x hx] at h; cases h
      · exact (List.nodup_append.mp hnd').2.2 x h x (List.mem_append_left _ hx) rfl
    have hj1 := jobsOKm_push (mkRes c).prio hj hjob hnew
    obtain ⟨s', e1, e2, e3, e4⟩ := ih (donefs ++ [c]) _ (fun d hd => hfs d (List.mem_cons_of_mem _ hd))
      (by rw [List.append_assoc]; exact hnd) hj1 (by
        intro x hx
        rcases List.mem_append.mp ((push_ops_perm s _ _).mem_iff.mp hx) with h | h
        · rcases hq x h with h' | h' | h'
          · exact Or.inl h'
          · exact Or.inr (Or.inl h')
          · exact Or.inr (Or.inr (by rw [allUnf_append]; exact List.mem_append_left _ h'))
        · exact Or.inr (Or.inr (by rw [allUnf_append, allUnf_cons]; exact List.mem_append_right _ (List.mem_append_left _ h))))
      (fun x hx => hQ x (by rw [allUnf_cons]; exact List.mem_append_right _ hx))
    refine ⟨s', ?_, e2, by rw [List.append_assoc] at e3; exact e3, by rw [e4, push_susp]⟩
    simp only [List.map_cons, List.foldlM_cons, hstep]
    exact e1

/-- the loop over the failures only adds operators of failed containers: whatever else is queued afterwards was queued before -/
theorem enqFail_pending (w : World) (F : List Nat) : ∀ (fs : List Ctr) (s s' : St), (fs.map mkRes).foldlM (failStep w) s = .ok s' →
    ∀ o ∈ s'.jobs.flatMap (·.ops), o ∈ s.jobs.flatMap (·.ops) ∨ o ∈ (fs.flatMap (fun c => nonCompleted w c.ops)) := by
  intro fs
  induction fs with
  | nil => intro s s' h o ho; simp only [List.map_nil, List.foldlM_nil, pure, Except.pure, Except.ok.injEq] at h; rw [← h] at ho; exact Or.inl ho
  | cons c fs ih =>
    intro s s' h o ho
    simp only [List.map_cons, List.foldlM_cons] at h
    cases hst : failStep w s (mkRes c) with
    | error e => rw [hst] at h; cases h
    | ok s1 =>
      rw [hst] at h
      rcases ih s1 s' h o ho with h1 | h1
      · unfold failStep at hst
        split at hst
        · cases hst
        · simp only [Except.ok.injEq] at hst
          rw [← hst] at h1
          rcases List.mem_append.mp ((push_ops_perm s _ _).mem_iff.mp h1) with h2 | h2
          · exact Or.inl h2
          · exact Or.inr (by simp only [List.flatMap_cons]; exact List.mem_append_left _ h2)
      · exact Or.inr (by simp only [List.flatMap_cons]; exact List.mem_append_right _ h1)

theorem ppEnqueue_eq (w : World) (st : St) (cs : List Ctr) (newP : List Nat) :
    ppEnqueue w st (cs.map mkRes) newP = ((cs.filter (·.err)).map mkRes).foldlM (failStep w)
      (newP.foldl (fun st pid => st.push { prio := w.prioOf pid, pid := pid, ops := (w.pipes.getD pid default).order } (w.prioOf pid)) st) := by
  unfold ppEnqueue
  rw [filter_failed]
  rfl

/-- **`ppEnqueue` never trips its assertion and leaves good queues**: the pipelines that arrive (`newP`, none of them seen before) are queued whole, in
dependency order; for every failed result the unfinished suffix of its container — not empty, all FAILED — is queued -/
theorem ppEnqueue_ok (w : World) (st : St) (cs : List Ctr) (newP F : List Nat)
    (wf : w.WFP) (hs : w.SegsOK) (hpid : w.PidOK) (htopo : w.Topo)
    (hj : JobsOKm w st.jobs) (hjF : ∀ o ∈ st.jobs.flatMap (·.ops), w.store.pidOf o ∉ newP ++ F)
    (hnd : (newP ++ F).Nodup)
    (hfut : ∀ pid ∈ newP ++ F, (w.pipes.getD pid default).order ≠ [] ∧ ∀ o ∈ (w.pipes.getD pid default).order, w.store.stOf o = pending)
    (hcs : ∀ c ∈ cs, Fin w.store c ∧ c.completed = true ∧ Good (newP ++ F) w.store c)
    (hcnd : (allUnf cs).Nodup) (hcq : ∀ o ∈ allUnf cs, o ∉ st.jobs.flatMap (·.ops)) :
    ∃ st', ppEnqueue w st (cs.map mkRes) newP = .ok st' ∧ JobsOKm w st'.jobs ∧ st'.susp = st.susp ∧
      ∀ o ∈ st'.jobs.flatMap (·.ops), w.store.pidOf o ∉ F := by
  rw [ppEnqueue_eq]
  obtain ⟨a1, a2, a3⟩ := enqNew_ok w wf hs hpid htopo (st.jobs.flatMap (·.ops)) newP [] st (List.nodup_append.mp hnd).1 (by simp) hj
    (fun o ho => Or.inl ho) (fun pid hp => hfut pid (List.mem_append_left _ hp)) (fun o ho hx => hjF o ho (List.mem_append_left _ hx))
  have hsubl : (cs.filter (·.err)).Sublist cs := List.filter_sublist
  obtain ⟨s', e1, e2, e3, e4⟩ := enqFail_ok w (newP ++ F) (st.jobs.flatMap (·.ops)) (cs.filter (·.err)) [] _
    (fun c hc => by
      obtain ⟨h1, h2⟩ := List.mem_filter.mp hc
      exact ⟨(hcs c h1).1, (hcs c h1).2.1, h2, (hcs c h1).2.2⟩)
    (by simp only [List.nil_append]; exact (allUnf_sublist hsubl).nodup hcnd) a1
    (fun o ho => by rcases a2 o ho with h | h; exact Or.inl h; exact Or.inr (Or.inl h.2))
    (fun o ho => hcq o ((allUnf_sublist hsubl).subset ho))
  refine ⟨s', e1, e2, by rw [e4, a3], ?_⟩
  -- where the queued operators come from: old jobs, the new pipelines, the failed containers -- none belongs to a pipeline still to arrive
  intro o ho hF
  rcases enqFail_pending w (newP ++ F) _ _ _ e1 o ho with h | h
  · rcases a2 o h with h' | h'
    · exact hjF o h' (List.mem_append_right _ hF)
    · have hin : w.store.pidOf o ∈ newP := by simpa using h'.1
      exact (List.nodup_append.mp hnd).2.2 _ hin _ hF rfl
  · obtain ⟨c, hc, hoc⟩ := List.mem_flatMap.mp h
    have hc' := (List.mem_filter.mp hc).1
    have hoc' : o ∈ c.ops := by unfold nonCompleted at hoc; exact (List.mem_filter.mp hoc).1
    exact ((hcs c hc').2.2.2.1 o hoc').2.2 (List.mem_append_right _ hF)

/-! ### one queue on one pool -/

/-- a pool snapshot the scheduler can work with: nothing negative, and free CPU is zero exactly when free RAM is -/
def SnOK (s : Snap) : Prop := 0 ≤ s.availC ∧ 0 ≤ s.availR ∧ (s.availC = 0 ↔ s.availR = 0)

theorem newSize_both (q : Nat) (hq : 0 < q) (s : Snap) (h0 : 0 < s.availC) (h1 : 0 < s.availR) :
    0 < (newSize q s).1 ∧ 0 < (newSize q s).2 ∧
    ((((newSize q s).1 : Int) = s.availC ∧ ((newSize q s).2 : Int) = s.availR) ∨ (((newSize q s).1 : Int) < s.availC ∧ ((newSize q s).2 : Int) < s.availR)) := by
  unfold newSize
  simp only
  split
  · refine ⟨by omega, by omega, Or.inl ⟨by omega, by omega⟩⟩
  · rename_i h
    simp only [Bool.or_eq_true, decide_eq_true_eq, not_or, Int.not_le] at h
    exact ⟨by omega, Nat.mul_pos (by omega) hq, Or.inr ⟨h.1, h.2⟩⟩

/-- every container priority-pool sizes is positive and takes either all that is left of both resources or strictly less of both -/
theorem ppSize_both (q : Nat) (hq : 0 < q) (s : Snap) (job : Job) (jc jr : Nat) (h0 : 0 < s.availC) (h1 : 0 < s.availR)
    (hr : ∀ rs, job.retry = some rs → 0 < rs.oldCpu ∧ 0 < rs.oldRam) (h : ppSize q s job = some (jc, jr)) :
    0 < jc ∧ 0 < jr ∧ (((jc : Int) = s.availC ∧ (jr : Int) = s.availR) ∨ ((jc : Int) < s.availC ∧ (jr : Int) < s.availR)) := by
  have hn := newSize_both q hq s h0 h1
  have hall : 0 < s.availC.toNat ∧ 0 < s.availR.toNat ∧ (((s.availC.toNat : Nat) : Int) = s.availC ∧ ((s.availR.toNat : Nat) : Int) = s.availR) :=
    ⟨by omega, by omega, by omega, by omega⟩
  unfold ppSize at h
  split at h
  · rename_i rs hrs
    obtain ⟨p1, p2⟩ := hr rs hrs
    split at h
    · split at h
      · cases h
      · split at h
        · simp only [Option.some.injEq, Prod.mk.injEq] at h
          obtain ⟨rfl, rfl⟩ := h
          exact ⟨hall.1, hall.2.1, Or.inl hall.2.2⟩
        · rename_i hlt
          simp only [Bool.or_eq_true, decide_eq_true_eq, not_or, Int.not_le] at hlt
          simp only [Option.some.injEq, Prod.mk.injEq] at h
          obtain ⟨rfl, rfl⟩ := h
          exact ⟨by omega, by omega, Or.inr ⟨hlt.1, hlt.2⟩⟩
    · split at h
      · rename_i hfit
        simp only [Bool.and_eq_true, decide_eq_true_eq] at hfit
        split at h
        · simp only [Option.some.injEq, Prod.mk.injEq] at h
          obtain ⟨rfl, rfl⟩ := h
          exact ⟨hall.1, hall.2.1, Or.inl hall.2.2⟩
        · rename_i hne
          simp only [Bool.or_eq_true, beq_iff_eq, not_or] at hne
          simp only [Option.some.injEq, Prod.mk.injEq] at h
          obtain ⟨rfl, rfl⟩ := h
          exact ⟨p1, p2, Or.inr ⟨by omega, by omega⟩⟩
      · simp only [Option.some.injEq] at h
        rw [h] at hn; exact hn
  · simp only [Option.some.injEq] at h
    rw [h] at hn; exact hn

theorem snapSub_getD_same (sn : List Snap) (k cpu ram : Nat) (hk : k < sn.length) :
    (snapSub sn k cpu ram).getD k default = { (sn.getD k default) with availC := (sn.getD k default).availC - cpu, availR := (sn.getD k default).availR - ram } := by
  unfold snapSub
  rw [List.getD_eq_getElem?_getD, List.getElem?_set_self hk]
  rfl

theorem snapSub_getD_other (sn : List Snap) (k j cpu ram : Nat) (hj : j ≠ k) : (snapSub sn k cpu ram).getD j default = sn.getD j default := by
  unfold snapSub
  rw [List.getD_eq_getElem?_getD, List.getElem?_set_ne (Ne.symm hj), ← List.getD_eq_getElem?_getD]

/-- **one queue run of priority-pool never raises** — neither the scheduler's own assertion ("free RAM is zero iff free CPU is zero") nor the `Assignment`
constructor: it consumes `m` jobs from the head, every container it builds holds exactly the operators of one of them, on its pool -/
theorem ppQueue_run (q : Nat) (hq : 0 < q) (pool : Nat) : ∀ (jobs : List Job) (w : World) (sn : List Snap) (k : Nat) (acc : List Asg),
    (jobs.flatMap (·.ops)).Nodup → (∀ j ∈ jobs, JobOKm w j) → pool < sn.length → (∀ i, i < sn.length → SnOK (sn.getD i default)) →
    ∃ w' sn' k' m new, ppQueue q pool w jobs sn k acc = .ok (w', sn', k', acc ++ new) ∧ k' = k + m ∧ m ≤ jobs.length ∧ Built w new w' ∧
      sn'.length = sn.length ∧ (∀ i, i < sn'.length → SnOK (sn'.getD i default)) ∧
      (∀ a ∈ new, a.pool = pool ∧ ∃ j ∈ jobs.take m, a.ops = j.ops) := by
  intro jobs
  induction jobs with
  | nil =>
    intro w sn k acc _ _ _ hsn
    exact ⟨w, sn, k, 0, [], by simp [ppQueue], rfl, by simp, .nil _, rfl, hsn, by simp⟩
  | cons job rest ih =>
    intro w sn k acc hnd hok hp hsn
    have hndr : (rest.flatMap (·.ops)).Nodup := by
      rw [List.flatMap_cons, List.nodup_append] at hnd; exact hnd.2.1
    obtain ⟨s0, s1, szt⟩ := hsn pool hp
    unfold ppQueue
    by_cases hz : ((sn.getD pool default).availR == 0 || (sn.getD pool default).availC == 0) = true
    · simp only [hz, ↓reduceIte]
      have hboth : ((sn.getD pool default).availR == 0 && (sn.getD pool default).availC == 0) = true := by
        simp only [Bool.or_eq_true, beq_iff_eq] at hz
        simp only [Bool.and_eq_true, beq_iff_eq]
        rcases hz with h | h
        · exact ⟨h, szt.mpr h⟩
        · exact ⟨szt.mp h, h⟩
      simp only [hboth, ↓reduceIte]
      exact ⟨w, sn, k, 0, [], by simp, rfl, by simp, .nil _, rfl, hsn, by simp⟩
    · have hz' : ((sn.getD pool default).availR == 0 || (sn.getD pool default).availC == 0) = false := by simpa using hz
      simp only [hz', Bool.false_eq_true, ↓reduceIte]
      simp only [Bool.or_eq_false_iff, beq_eq_false_iff_ne, ne_eq] at hz'
      have hc0 : 0 < (sn.getD pool default).availC := by omega
      have hr0 : 0 < (sn.getD pool default).availR := by omega
      cases hsz : ppSize q (sn.getD pool default) job with
      | none =>
        simp only
        obtain ⟨w', sn', k', m, new, e1, e2, e3, e4, e5, e6, e7⟩ := ih w sn (k + 1) acc hndr (fun j hj => hok j (List.mem_cons_of_mem _ hj)) hp hsn
        refine ⟨w', sn', k', m + 1, new, e1, by omega, by simp; omega, e4, e5, e6, ?_⟩
        intro a ha
        obtain ⟨a1, j, hj, a2⟩ := e7 a ha
        exact ⟨a1, j, by simp only [List.take_succ_cons]; exact List.mem_cons_of_mem _ hj, a2⟩
      | some sz =>
        obtain ⟨jc, jr⟩ := sz
        simp only
        have hj := hok job (by simp)
        obtain ⟨pc, pr, hboth⟩ := ppSize_both q hq _ job jc jr hc0 hr0 hj.retry hsz
        obtain ⟨w1, hw1⟩ := mkAssignment_succeeds w { ops := job.ops, cpu := jc, ram := jr, prio := job.prio, pool := pool }
          hj.ne pc pr hj.nd (fun x hx => ⟨(hj.ok x hx).1, (hj.ok x hx).2.1⟩)
        have hmk : mkA w job.ops jc jr job.prio pool = .ok (w1, { ops := job.ops, cpu := jc, ram := jr, prio := job.prio, pool := pool }) := by
          unfold mkA; rw [hw1]
        rw [hmk]
        simp only
        obtain ⟨_, _, _, _, _, m6⟩ := mkAssignment_spec hw1
        have hst1 : Steps w.store w1.store := mkAssignment_steps_ok hw1
        have hdisj : ∀ j ∈ rest, ∀ x ∈ j.ops, x ∉ job.ops := by
          intro j hj' x hx hc
          rw [List.flatMap_cons, List.nodup_append] at hnd
          exact hnd.2.2 x hc x (List.mem_flatMap.mpr ⟨j, hj', hx⟩) rfl
        have hsn1 : ∀ i, i < (snapSub sn pool jc jr).length → SnOK ((snapSub sn pool jc jr).getD i default) := by
          intro i hi
          rw [snapSub_length] at hi
          by_cases hip : i = pool
          · subst hip
            rw [snapSub_getD_same sn i jc jr hp]
            unfold SnOK
            simp only
            rcases hboth with ⟨b1, b2⟩ | ⟨b1, b2⟩
            · exact ⟨by omega, by omega, by constructor <;> intro <;> omega⟩
            · exact ⟨by omega, by omega, by constructor <;> intro <;> omega⟩
          · rw [snapSub_getD_other sn pool i jc jr hip]; exact hsn i hi
        obtain ⟨w', sn', k', m, new, e1, e2, e3, e4, e5, e6, e7⟩ := ih w1 (snapSub sn pool jc jr) (k + 1)
          (acc ++ [{ ops := job.ops, cpu := jc, ram := jr, prio := job.prio, pool := pool }]) hndr
          (fun j hj' => jobOKm_keep hst1 (fun x hx => m6 x (hdisj j hj' x hx)) (hok j (List.mem_cons_of_mem _ hj')))
          (by rw [snapSub_length]; exact hp) hsn1
        refine ⟨w', sn', k', m + 1, { ops := job.ops, cpu := jc, ram := jr, prio := job.prio, pool := pool } :: new, ?_, by omega, by simp; omega,
          .cons hw1 e4, by rw [e5, snapSub_length], e6, ?_⟩
        · rw [e1]; simp
        · intro a ha
          rcases List.mem_cons.mp ha with rfl | ha
          · exact ⟨rfl, job, by simp, rfl⟩
          · obtain ⟨a1, j, hj', a2⟩ := e7 a ha
            exact ⟨a1, j, by simp only [List.take_succ_cons]; exact List.mem_cons_of_mem _ hj', a2⟩

/-! ### one whole round -/

theorem nonNegS_of_snOK {sn : List Snap} (h : ∀ i, i < sn.length → SnOK (sn.getD i default)) : C08.NonNegS sn := by
  intro s hs
  obtain ⟨i, hi, rfl⟩ := List.getElem_of_mem hs
  have := h i hi
  rw [List.getD_eq_getElem?_getD, List.getElem?_eq_getElem hi] at this
  exact ⟨this.1, this.2.1⟩

/-- a pool the scheduler can work with: nothing negative, free CPU zero exactly when free RAM is -/
def PoolZT (p : Pool) : Prop := 0 ≤ p.availC ∧ 0 ≤ p.availR ∧ (p.availC = 0 ↔ p.availR = 0)

/-- **one round of priority-pool never raises** (multi-operator containers, two pools): every assignment holds exactly the operators of one good job, the
batches pass the executor's capacity check, the queues it leaves are good again, and the scheduler's end-of-round snapshot — which is what the pools show once
the containers are started — still has free CPU zero exactly when free RAM is -/
theorem ppRound_run (w : World) (st : St) (cs : List Ctr) (newP F : List Nat) (hq : 0 < w.cfg.q) (h2 : w.pools.length = 2)
    (hzt : ∀ p ∈ w.pools, PoolZT p)
    (wf : w.WFP) (hs : w.SegsOK) (hpid : w.PidOK) (htopo : w.Topo)
    (hj : JobsOKm w st.jobs) (hjF : ∀ o ∈ st.jobs.flatMap (·.ops), w.store.pidOf o ∉ newP ++ F)
    (hnd : (newP ++ F).Nodup)
    (hfut : ∀ pid ∈ newP ++ F, (w.pipes.getD pid default).order ≠ [] ∧ ∀ o ∈ (w.pipes.getD pid default).order, w.store.stOf o = pending)
    (hcs : ∀ c ∈ cs, Fin w.store c ∧ c.completed = true ∧ Good (newP ++ F) w.store c)
    (hcnd : (allUnf cs).Nodup) (hcq : ∀ o ∈ allUnf cs, o ∉ st.jobs.flatMap (·.ops)) :
    ∃ w' st' asgs snE, ppRound w st (cs.map mkRes) newP = .ok (w', st', { sus := [], asgs := asgs }) ∧ Built w asgs w' ∧ JobsOKm w' st'.jobs ∧
      st'.susp = st.susp ∧ (∀ o ∈ st'.jobs.flatMap (·.ops), w.store.pidOf o ∉ F) ∧
      (∀ a ∈ asgs, a.pool < 2 ∧ ∃ j, JobOKm w j ∧ a.ops = j.ops ∧ ∀ o ∈ a.ops, w.store.pidOf o ∉ F) ∧
      C08.Budget (snaps w) snE asgs ∧ snE.length = 2 ∧ (∀ i, i < 2 → SnOK (snE.getD i default)) ∧
      (∀ o ∈ asgs.flatMap (·.ops), ∀ j ∈ st'.jobs, o ∉ j.ops) := by
  obtain ⟨st0, henq, hj0, hsu0, hF0⟩ := ppEnqueue_ok w st cs newP F wf hs hpid htopo hj hjF hnd hfut hcs hcnd hcq
  have hsn0 : ∀ i, i < (snaps w).length → SnOK ((snaps w).getD i default) := by
    intro i hi
    have hi' : i < w.pools.length := by simpa [snaps] using hi
    simp only [snaps]
    rw [List.getD_eq_getElem?_getD, List.getElem?_map, List.getElem?_eq_getElem hi']
    exact hzt _ (List.getElem_mem hi')
  have hlen0 : (snaps w).length = 2 := by simp [snaps, h2]
  have hcount := (nodup_iff_count_le_one _).mp hj0.nd
  have hjq : ∀ j, j ∈ st0.qry → j ∈ st0.jobs := fun j h => by unfold St.jobs; simp [h]
  have hji : ∀ j, j ∈ st0.inter → j ∈ st0.jobs := fun j h => by unfold St.jobs; simp [h]
  have hjb : ∀ j, j ∈ st0.batch → j ∈ st0.jobs := fun j h => by unfold St.jobs; simp [h]
  have hndq : (st0.qry.flatMap (·.ops)).Nodup := by
    have := hj0.nd; unfold St.jobs at this; rw [List.flatMap_append, List.flatMap_append] at this
    exact (List.nodup_append.mp (List.nodup_append.mp this).1).1
  have hndi : (st0.inter.flatMap (·.ops)).Nodup := by
    have := hj0.nd; unfold St.jobs at this; rw [List.flatMap_append, List.flatMap_append] at this
    exact (List.nodup_append.mp (List.nodup_append.mp this).1).2.1
  have hndb : (st0.batch.flatMap (·.ops)).Nodup := by
    have := hj0.nd; unfold St.jobs at this; rw [List.flatMap_append, List.flatMap_append] at this
    exact (List.nodup_append.mp this).2.1
  have hC : ∀ (m1 m2 m3 x : Nat),
      ((st0.qry.take m1).flatMap (·.ops)).count x + ((st0.qry.drop m1).flatMap (·.ops)).count x +
      (((st0.inter.take m2).flatMap (·.ops)).count x + ((st0.inter.drop m2).flatMap (·.ops)).count x) +
      (((st0.batch.take m3).flatMap (·.ops)).count x + ((st0.batch.drop m3).flatMap (·.ops)).count x) ≤ 1 := by
    intro m1 m2 m3 x
    have := hcount x
    unfold St.jobs at this
    rw [List.flatMap_append, List.flatMap_append, List.count_append, List.count_append, count_split st0.qry m1, count_split st0.inter m2,
      count_split st0.batch m3] at this
    exact this
  -- query queue on pool 0
  obtain ⟨w1, sn1, k1, m1, new1, r1, rk1, rm1, b1, l1, n1, a1⟩ := ppQueue_run w.cfg.q hq 0 st0.qry w (snaps w) 0 [] hndq
    (fun j hj' => hj0.ok j (hjq j hj')) (by omega) hsn0
  simp only [List.nil_append, Nat.zero_add] at r1 rk1
  rw [rk1] at r1
  obtain ⟨f1p, f1c, _, f1s⟩ := built_frame b1
  obtain ⟨_, _, _, s1⟩ := built_spec b1
  have hnew1 : ∀ x ∈ new1.flatMap (·.ops), x ∈ (st0.qry.take m1).flatMap (·.ops) := by
    intro x hx
    obtain ⟨a, ha, hxa⟩ := List.mem_flatMap.mp hx
    obtain ⟨_, j, hj', ho⟩ := a1 a ha
    rw [ho] at hxa; exact List.mem_flatMap.mpr ⟨j, hj', hxa⟩
  -- interactive queue on pool 0
  obtain ⟨w2, sn2, k2, m2, new2, r2, rk2, rm2, b2, l2, n2, a2⟩ := ppQueue_run w.cfg.q hq 0 st0.inter w1 sn1 0 [] hndi
    (fun j hj' => jobOKm_keep f1s (fun x hx => s1 x (fun hc => by
        have c1 := count_flatMap_mem (hnew1 x hc)
        have c2 := count_flatMap_mem (List.mem_flatMap.mpr ⟨j, hj', hx⟩)
        have := hC m1 0 0 x
        simp only [List.take_zero, List.drop_zero, List.flatMap_nil, List.count_nil] at this
        omega)) (hj0.ok j (hji j hj')))
    (by rw [l1]; omega) n1
  simp only [List.nil_append, Nat.zero_add] at r2 rk2
  rw [rk2] at r2
  obtain ⟨f2p, f2c, _, f2s⟩ := built_frame b2
  obtain ⟨_, _, _, s2⟩ := built_spec b2
  have hnew2 : ∀ x ∈ new2.flatMap (·.ops), x ∈ (st0.inter.take m2).flatMap (·.ops) := by
    intro x hx
    obtain ⟨a, ha, hxa⟩ := List.mem_flatMap.mp hx
    obtain ⟨_, j, hj', ho⟩ := a2 a ha
    rw [ho] at hxa; exact List.mem_flatMap.mpr ⟨j, hj', hxa⟩
  -- batch queue on pool 1
  obtain ⟨w3, sn3, k3, m3, new3, r3, rk3, rm3, b3, l3, n3, a3⟩ := ppQueue_run w.cfg.q hq 1 st0.batch w2 sn2 0 [] hndb
    (fun j hj' => jobOKm_keep (f1s.trans f2s) (fun x hx => by
        have c2 := count_flatMap_mem (List.mem_flatMap.mpr ⟨j, hj', hx⟩)
        have hh := hC m1 m2 0 x
        simp only [List.take_zero, List.drop_zero, List.flatMap_nil, List.count_nil] at hh
        rw [s2 x (fun hc => by have := count_flatMap_mem (hnew2 x hc); omega), s1 x (fun hc => by have := count_flatMap_mem (hnew1 x hc); omega)])
      (hj0.ok j (hjb j hj')))
    (by rw [l2, l1]; omega) n2
  simp only [List.nil_append, Nat.zero_add] at r3 rk3
  rw [rk3] at r3
  obtain ⟨f3p, f3c, _, f3s⟩ := built_frame b3
  obtain ⟨_, _, _, s3⟩ := built_spec b3
  have hnew3 : ∀ x ∈ new3.flatMap (·.ops), x ∈ (st0.batch.take m3).flatMap (·.ops) := by
    intro x hx
    obtain ⟨a, ha, hxa⟩ := List.mem_flatMap.mp hx
    obtain ⟨_, j, hj', ho⟩ := a3 a ha
    rw [ho] at hxa; exact List.mem_flatMap.mpr ⟨j, hj', hxa⟩
  have hcq1 : w1.cfg.q = w.cfg.q := by rw [f1c]
  have hcq2 : w2.cfg.q = w.cfg.q := by rw [f2c, f1c]
  -- budgets
  obtain ⟨_, _, x1, e1, bb1⟩ := C08.ppQueue_budget _ _ _ _ _ _ _ _ _ _ _ r1 (nonNegS_of_snOK hsn0)
  obtain ⟨_, _, x2, e2, bb2⟩ := C08.ppQueue_budget _ _ _ _ _ _ _ _ _ _ _ r2 (nonNegS_of_snOK n1)
  obtain ⟨_, _, x3, e3, bb3⟩ := C08.ppQueue_budget _ _ _ _ _ _ _ _ _ _ _ r3 (nonNegS_of_snOK n2)
  simp only [List.nil_append] at e1 e2 e3
  subst e1 e2 e3
  -- every operator handed out now is in none of the jobs left waiting
  have hdisj : ∀ x, (x ∈ new1.flatMap (·.ops) ∨ x ∈ new2.flatMap (·.ops) ∨ x ∈ new3.flatMap (·.ops)) →
      ∀ j, (j ∈ st0.qry.drop m1 ∨ j ∈ st0.inter.drop m2 ∨ j ∈ st0.batch.drop m3) → x ∉ j.ops := by
    intro x hx j hj' hxj
    have hh := hC m1 m2 m3 x
    have ct : 1 ≤ ((st0.qry.take m1).flatMap (·.ops)).count x + ((st0.inter.take m2).flatMap (·.ops)).count x + ((st0.batch.take m3).flatMap (·.ops)).count x := by
      rcases hx with h | h | h
      · have := count_flatMap_mem (hnew1 x h); omega
      · have := count_flatMap_mem (hnew2 x h); omega
      · have := count_flatMap_mem (hnew3 x h); omega
    have cd : 1 ≤ ((st0.qry.drop m1).flatMap (·.ops)).count x + ((st0.inter.drop m2).flatMap (·.ops)).count x + ((st0.batch.drop m3).flatMap (·.ops)).count x := by
      rcases hj' with h | h | h
      · have := count_flatMap_mem (List.mem_flatMap.mpr ⟨j, h, hxj⟩); omega
      · have := count_flatMap_mem (List.mem_flatMap.mpr ⟨j, h, hxj⟩); omega
      · have := count_flatMap_mem (List.mem_flatMap.mpr ⟨j, h, hxj⟩); omega
    omega
  have hmemdrop : ∀ j, j ∈ ({ st0 with qry := st0.qry.drop m1, inter := st0.inter.drop m2, batch := st0.batch.drop m3 } : St).jobs →
      (j ∈ st0.qry.drop m1 ∨ j ∈ st0.inter.drop m2 ∨ j ∈ st0.batch.drop m3) := by
    intro j hj'
    have : j ∈ st0.qry.drop m1 ++ st0.inter.drop m2 ++ st0.batch.drop m3 := hj'
    simpa [List.mem_append, or_assoc] using this
  have horig : ∀ j, (j ∈ st0.qry.drop m1 ∨ j ∈ st0.inter.drop m2 ∨ j ∈ st0.batch.drop m3) → j ∈ st0.jobs := by
    intro j hj''
    rcases hj'' with h | h | h
    · exact hjq j (List.mem_of_mem_drop h)
    · exact hji j (List.mem_of_mem_drop h)
    · exact hjb j (List.mem_of_mem_drop h)
  refine ⟨w3, { st0 with qry := st0.qry.drop m1, inter := st0.inter.drop m2, batch := st0.batch.drop m3 }, new1 ++ new2 ++ new3, sn3, ?_,
    (b1.append b2).append b3, ?_, ?_, ?_, ?_, C08.budget_trans (C08.budget_trans bb1 bb2) bb3, by rw [l3, l2, l1, hlen0], ?_, ?_⟩
  · unfold ppRound
    simp only [henq, r1, r2, r3]
  · refine ⟨?_, ?_⟩
    · apply (nodup_iff_count_le_one _).mpr
      intro x
      have := hC m1 m2 m3 x
      show ((st0.qry.drop m1 ++ st0.inter.drop m2 ++ st0.batch.drop m3).flatMap (·.ops)).count x ≤ 1
      rw [List.flatMap_append, List.flatMap_append, List.count_append, List.count_append]
      omega
    · intro j hj'
      have hj'' := hmemdrop j hj'
      apply jobOKm_keep ((f1s.trans f2s).trans f3s) _ (hj0.ok j (horig j hj''))
      intro x hx
      rw [s3 x (fun hc => hdisj x (Or.inr (Or.inr hc)) j hj'' hx), s2 x (fun hc => hdisj x (Or.inr (Or.inl hc)) j hj'' hx),
        s1 x (fun hc => hdisj x (Or.inl hc) j hj'' hx)]
  · show st0.susp = st.susp
    exact hsu0
  · intro o ho
    obtain ⟨j, hj', hoj⟩ := List.mem_flatMap.mp ho
    exact hF0 o (List.mem_flatMap.mpr ⟨j, horig j (hmemdrop j hj'), hoj⟩)
  · intro a ha
    have ha' : a ∈ new1 ∨ a ∈ new2 ∨ a ∈ new3 := by simpa [List.mem_append, or_assoc] using ha
    have fromq : ∀ (l : List Job) (m : Nat) (j : Job), (∀ j, j ∈ l → j ∈ st0.jobs) → j ∈ l.take m → JobOKm w j ∧ ∀ o ∈ j.ops, w.store.pidOf o ∉ F := by
      intro l m j hl hjm
      have hjj := hl j (List.mem_of_mem_take hjm)
      exact ⟨hj0.ok j hjj, fun o ho => hF0 o (List.mem_flatMap.mpr ⟨j, hjj, ho⟩)⟩
    rcases ha' with h | h | h
    · obtain ⟨p1, j, hj', ho⟩ := a1 a h
      obtain ⟨q1, q2⟩ := fromq _ _ j hjq hj'
      exact ⟨by omega, j, q1, ho, by rw [ho]; exact q2⟩
    · obtain ⟨p1, j, hj', ho⟩ := a2 a h
      obtain ⟨q1, q2⟩ := fromq _ _ j hji hj'
      exact ⟨by omega, j, q1, ho, by rw [ho]; exact q2⟩
    · obtain ⟨p1, j, hj', ho⟩ := a3 a h
      obtain ⟨q1, q2⟩ := fromq _ _ j hjb hj'
      exact ⟨by omega, j, q1, ho, by rw [ho]; exact q2⟩
  · intro i hi
    exact n3 i (by rw [l3, l2, l1, hlen0]; exact hi)
  · intro o ho j hj'
    have ho' : o ∈ new1.flatMap (·.ops) ∨ o ∈ new2.flatMap (·.ops) ∨ o ∈ new3.flatMap (·.ops) := by
      simpa [List.flatMap_append, List.mem_append, or_assoc] using ho
    exact hdisj o ho' j (hmemdrop j hj')

/-! ### what a pool tick does to the free amounts -/

theorem cpuSum_pos_of {l : List Ctr} (h : ∀ c ∈ l, 0 < c.cpu) (hne : l ≠ []) : 0 < cpuSum l := by
  cases l with
  | nil => exact absurd rfl hne
  | cons c cs =>
    have hc := h c (by simp)
    have : 0 ≤ cpuSum cs := by
      clear hne hc
      induction cs with
      | nil => simp [cpuSum]
      | cons d ds ih => have := ih (fun x hx => h x (by simp at hx ⊢; rcases hx with rfl | hx; exact Or.inl rfl; exact Or.inr (Or.inr hx))); simp [cpuSum] at this ⊢; omega
    simp [cpuSum] at this ⊢; omega

theorem ramSum_pos_of {l : List Ctr} (h : ∀ c ∈ l, 0 < c.ram) (hne : l ≠ []) : 0 < ramSum l := by
  cases l with
  | nil => exact absurd rfl hne
  | cons c cs =>
    have hc := h c (by simp)
    have : 0 ≤ ramSum cs := by
      clear hne hc
      induction cs with
      | nil => simp [ramSum]
      | cons d ds ih => have := ih (fun x hx => h x (by simp at hx ⊢; rcases hx with rfl | hx; exact Or.inl rfl; exact Or.inr (Or.inr hx))); simp [ramSum] at this ⊢; omega
    simp [ramSum] at this ⊢; omega

/-- phases 3–6 on a pool without write-outs give back exactly the allocations of the containers that ended, CPU and RAM of the same containers -/
theorem poolRun_avail {cfg : Cfg} {w w' : Store} {p p' : Pool} {n : Nat} {res : List Res} {P : Ctr → Prop} (k : Kept cfg P) (pinv : PoolInv p n)
    (hs : p.suspending = []) (hp : AllC P p.active) (h : poolRun cfg w p = .ok (w', p', res)) :
    ∃ D : List Ctr, p'.availC = p.availC + cpuSum D ∧ p'.availR = p.availR + ramSum D ∧ ∀ c ∈ D, P c := by
  unfold poolRun at h
  split at h
  · cases h
  · rename_i w3 p3 h3
    have h3' : p3.active = p.active ∧ p3.availC = p.availC ∧ p3.availR = p.availR ∧ p3.suspending = [] ∧ p3.suspended = p.suspended ∧ p3.capR = p.capR := by
      unfold suspTickAll at h3
      rw [hs] at h3
      simp only [suspTickList, Except.ok.injEq, Prod.mk.injEq] at h3
      obtain ⟨_, rfl⟩ := h3
      simp [cpuSum, ramSum]
    obtain ⟨act3, ac3, ar3, _, _, _⟩ := h3'
    split at h
    · cases h
    · rename_i w4 act4 cons4 h4
      rw [act3] at h4
      have h4' := tickAll_kept k _ _ _ _ _ _ h4 hp
      have hk4 := tickAll_keys _ _ _ _ _ _ _ h4
      have hcn4 : (cids act4).Nodup := by rw [cids_keys hk4]; exact (List.nodup_append.mp pinv.nodup).1
      split at h
      · cases h
      · rename_i w5 p5 h5
        have h5' := oomKiller_kept k h5 (by exact h4')
        obtain ⟨_, _, _, kc, kr, _, _⟩ := oomKiller_keys (p := { p3 with active := act4, consumed := cons4 }) hcn4 h5
        simp only at kc kr
        simp only [Except.ok.injEq, Prod.mk.injEq] at h
        obtain ⟨_, hp', _⟩ := h
        obtain ⟨_, _, f3, f4, _, _⟩ := collect_fields p5
        refine ⟨p5.active.filter (·.completed), ?_, ?_, fun c hc => h5' c (List.mem_filter.mp hc).1⟩
        · rw [← hp', f3, kc, ac3]
        · rw [← hp', f4, kr, ar3]

theorem poolTick_avail {cfg : Cfg} {w w' : Store} {p p' : Pool} {n n' : Nat} {asgs : List Asg} {res : List Res} {P : Ctr → Prop} (k : Kept cfg P)
    (pinv : PoolInv p n) (hs : p.suspending = []) (hp : AllC P p.active) (ha : ∀ a ∈ asgs, ∀ j, P (mkCtr w j a))
    (h : poolTick cfg w p n { susp := [], asgs := asgs } = .ok (w', p', n', res)) :
    ∃ D : List Ctr, p'.availC = p.availC - cpuReq asgs + cpuSum D ∧ p'.availR = p.availR - ramReq asgs + ramSum D ∧ ∀ c ∈ D, P c := by
  unfold poolTick at h
  simp only [List.isEmpty_nil, ↓reduceIte] at h
  split at h
  · cases h
  · split at h
    · cases h
    · rename_i p2 n2 hst
      split at h
      · cases h
      · rename_i w6 p6 res6 hr
        simp only [Except.ok.injEq, Prod.mk.injEq] at h
        obtain ⟨_, rfl, _, _⟩ := h
        obtain ⟨i2, _, _, _, ec, er⟩ := (startAll_inv cfg w asgs p n pinv).1 _ _ hst
        obtain ⟨D, d1, d2, d3⟩ := poolRun_avail k i2 (by rw [startAll_suspending' cfg w asgs p n p2 n2 hst, hs])
          (startAll_kept cfg w P asgs p n p2 n2 hst hp ha) hr
        exact ⟨D, by rw [d1, ec], by rw [d2, er], d3⟩

/-- what a pool shows free once this round's containers are started -/
def PostZT (p : Pool) (as : List Asg) : Prop :=
  0 ≤ p.availC - cpuReq as ∧ 0 ≤ p.availR - ramReq as ∧ (p.availC - cpuReq as = 0 ↔ p.availR - ramReq as = 0)

/-- **free CPU is zero exactly when free RAM is, after the tick as before**: starting the round's containers leaves the pool at the scheduler's end-of-round
snapshot, and every container that ends gives back a positive amount of both -/
theorem execPools_zt (cfg : Cfg) (asgs : List Asg) {P : Ctr → Prop} (k : Kept cfg P) (hpos : ∀ c, P c → 0 < c.cpu ∧ 0 < c.ram)
    (ha : ∀ a ∈ asgs, ∀ (s : Store) j, P (mkCtr s j a)) :
    ∀ (todo : List Pool) (s : Store) (n : Nat) (done : List Pool) (res : List Res) (s' : Store) (ps : List Pool) (n' : Nat) (res' : List Res),
    PoolsReady cfg asgs s n done todo → (∀ p ∈ done ++ todo, AllC P p.active ∧ p.suspending = []) → (∀ p ∈ done, PoolZT p) →
    (∀ j p, todo[j]? = some p → PostZT p (asgs.filter (·.pool == done.length + j))) →
    execPools cfg [] asgs s n done todo res = .ok (s', ps, n', res') → ∀ p ∈ ps, PoolZT p := by
  intro todo
  induction todo with
  | nil =>
    intro s n done res s' ps n' res' _ _ hz _ h
    simp only [execPools, Except.ok.injEq, Prod.mk.injEq] at h
    obtain ⟨_, rfl, _, _⟩ := h
    exact hz
  | cons p rest ih =>
    intro s n done res s' ps n' res' hJ hP hz hpost h
    unfold execPools at h
    split at h
    · cases h
    · cases h
    · rename_i s1 p1 n1 r hpt
      have hcm : cmdsFor done.length [] asgs = { susp := [], asgs := asgs.filter (·.pool == done.length) } := rfl
      obtain ⟨gp, _⟩ := hJ.live.pools p (by simp)
      obtain ⟨haR, hnd⟩ := poolsReady_head (sus := []) hJ
      rw [hcm] at haR hnd
      have hpt' := hpt
      rw [hcm] at hpt'
      have r1 : PoolReadyF cfg s1 p1 := by
        rcases poolTick_raises_only_at_the_gates (cm := { susp := [], asgs := asgs.filter (·.pool == done.length) }) gp (hJ.rdy p (by simp)) haR (by simp) hnd
          with ⟨w', p', n'', res'', he, hr'⟩ | ⟨e, st, he, _⟩
        · rw [hpt'] at he
          simp only [Except.ok.injEq, Prod.mk.injEq] at he
          obtain ⟨rfl, rfl, _, _⟩ := he
          exact hr'
        · rw [hpt'] at he; cases he
      have hJ1 := poolsReady_step hJ hpt r1
      obtain ⟨k1, _, k3⟩ := poolTick_kept k (hP p (by simp)).2 (hP p (by simp)).1 (fun a haa j => ha a (List.mem_filter.mp haa).1 s j) hpt'
      obtain ⟨D, d1, d2, d3⟩ := poolTick_avail k gp.1.1 (hP p (by simp)).2 (hP p (by simp)).1 (fun a haa j => ha a (List.mem_filter.mp haa).1 s j) hpt'
      have hz1 : PoolZT p1 := by
        obtain ⟨z1, z2, z3⟩ := hpost 0 p (by simp)
        simp only [Nat.add_zero] at z1 z2 z3
        unfold PoolZT
        rw [d1, d2]
        by_cases hD : D = []
        · subst hD; simp only [cpuSum, ramSum, List.map_nil, List.sum_nil, Int.add_zero]; exact ⟨z1, z2, z3⟩
        · have c1 := cpuSum_pos_of (fun c hc => (hpos c (d3 c hc)).1) hD
          have c2 := ramSum_pos_of (fun c hc => (hpos c (d3 c hc)).2) hD
          exact ⟨by omega, by omega, by constructor <;> intro <;> omega⟩
      apply ih s1 n1 (done ++ [p1]) (res ++ r) s' ps n' res' hJ1 _ _ _ h
      · intro q hq
        have hq' : q ∈ done ∨ q = p1 ∨ q ∈ rest := by simpa [List.mem_append, or_assoc] using hq
        rcases hq' with hq' | rfl | hq'
        · exact hP q (by simp [hq'])
        · exact ⟨k1, k3⟩
        · exact hP q (by simp [hq'])
      · intro q hq
        rcases List.mem_append.mp hq with hq | hq
        · exact hz q hq
        · simp at hq; subst hq; exact hz1
      · intro j q hjq
        have := hpost (j + 1) q (by simpa using hjq)
        simp only [List.length_append, List.length_cons, List.length_nil, Nat.zero_add]
        have e : done.length + 1 + j = done.length + (j + 1) := by omega
        rw [e]; exact this

/-! ### the closed loop -/

/-- everything the closed loop of priority-pool (multi-operator containers) keeps true from tick to tick; `cs` are the containers behind the results the
scheduler is about to be handed, `F` the pipelines still to arrive -/
structure PPInv (w : World) (st : St) (cs : List Ctr) (F : List Nat) : Prop where
  ready : WorldReady w
  wfp : w.WFP
  segs : w.SegsOK
  pid : w.PidOK
  topo : w.Topo
  fin : w.FinOK
  multi : w.cfg.multiOp = true
  q : 0 < w.cfg.q
  two : w.pools.length = 2
  zt : ∀ p ∈ w.pools, PoolZT p
  jobs : JobsOKm w st.jobs
  jobsF : ∀ o ∈ st.jobs.flatMap (·.ops), w.store.pidOf o ∉ F
  fnd : F.Nodup
  fut : ∀ pid ∈ F, (w.pipes.getD pid default).order ≠ [] ∧ ∀ o ∈ (w.pipes.getD pid default).order, w.store.stOf o = pending
  good : ∀ p ∈ w.pools, AllC (Good F w.store) p.active
  res : ∀ c ∈ cs, Fin w.store c ∧ c.completed = true ∧ Good F w.store c
  resnd : (allUnf cs).Nodup
  resq : ∀ o ∈ allUnf cs, o ∉ st.jobs.flatMap (·.ops)

theorem mkRes_same {c c' : Ctr} (h : mkRes c = mkRes c') : c.ops = c'.ops ∧ key c = key c' := by
  unfold mkRes at h
  injection h with h1 h2 h3 h4 h5 h6 h7
  exact ⟨h3, by unfold key; rw [h1, h4, h5]⟩

/-- **one scheduling round of priority-pool (multi-operator containers) plus one executor tick never raise**, and everything needed for the next round holds again -/
theorem pp_tick_never_raises (w : World) (st : St) (cs : List Ctr) (newP F : List Nat) (inv : PPInv w st cs (newP ++ F)) :
    ∃ w1 st1 dec w2 cs2, ppRound w st (cs.map mkRes) newP = .ok (w1, st1, dec) ∧ w1.execTick dec.sus dec.asgs = .ok (w2, cs2.map mkRes) ∧ PPInv w2 st1 cs2 F := by
  obtain ⟨w1, st1, asgs, snE, hrd, hb, hj1, _, hF1, hall, hbud, hlenE, hsnE, hdisj⟩ := ppRound_run w st cs newP F inv.q inv.two inv.zt inv.wfp inv.segs inv.pid
    inv.topo inv.jobs inv.jobsF inv.fnd inv.fut inv.res inv.resnd inv.resq
  obtain ⟨e1, e2, e3, est⟩ := built_frame hb
  obtain ⟨_, bpos, b3, b4⟩ := built_spec hb
  have hseg0 : ∀ a ∈ asgs, ∀ r ∈ a.ops, w.store.segsOf r ≠ [] := by
    intro a ha r hrr
    obtain ⟨_, j, hjo, eo, _⟩ := hall a ha
    rw [eo] at hrr
    exact (hjo.ok r hrr).2.2
  have hpar : ∀ a ∈ asgs, ParentsOK w1.store a.ops := by
    intro a ha
    obtain ⟨_, j, hjo, eo, _⟩ := hall a ha
    rw [eo]
    exact parentsOK_frame hjo.par est.ops (fun q hq => completed_final est q hq)
  obtain ⟨w2, res2, hex, r2, p2, c2, st2⟩ := execTick_succeeds_of_gates w w1 asgs inv.ready hb hseg0 hpar
    (by intro a ha; rw [e1, inv.two]; exact (hall a ha).1)
    (by intro k p hk
        right
        rw [e1] at hk
        have hklt : k < w.pools.length := (List.getElem?_eq_some_iff.mp hk).1
        have := C08.accepted_of_budget w snE asgs hbud (nonNegS_of_snOK (by rw [hlenE]; exact hsnE)) k hklt
        rw [List.getD_eq_getElem?_getD, hk] at this
        simp only [Option.getD_some] at this
        rw [e2]; exact this)
    (by intro a ha
        obtain ⟨_, j, hjo, eo, _⟩ := hall a ha
        unfold opCountOk
        rw [e2, inv.multi]
        simp only [↓reduceIte, ge_iff_le, decide_eq_true_eq]
        rw [eo]
        cases hjj : j.ops with
        | nil => exact absurd hjj hjo.ne
        | cons x xs => simp)
  -- what the tick reports
  obtain ⟨hfin2, cs2, hres2, hcs2, hnd2, hbusy2⟩ := execTick_fin w w1 asgs inv.ready hb hseg0 hpar inv.fin hex
  subst hres2
  -- the static facts about containers
  have hFsub : ∀ x ∈ F, x ∈ newP ++ F := fun x hx => List.mem_append_right _ hx
  have hgood1 : ∀ p ∈ w1.pools, AllC (Good F w1.store) p.active ∧ p.suspending = [] := by
    intro p hp
    rw [e1] at hp
    exact ⟨fun c hc => good_mono (inv.good p hp c hc) est hFsub, (inv.fin p hp).1⟩
  have hgoodA : ∀ a ∈ asgs, ∀ (s : Store) j, Good F w1.store (mkCtr s j a) := by
    intro a ha s j
    obtain ⟨_, jb, hjo, eo, hpf⟩ := hall a ha
    unfold Good mkCtr
    simp only
    refine ⟨by rw [eo]; exact hjo.nd, fun o ho => ?_, hpar a ha, (bpos a ha).2.1, (bpos a ha).2.2⟩
    have ho' : o ∈ jb.ops := by rw [← eo]; exact ho
    refine ⟨by rw [est.size]; exact (hjo.ok o ho').1, by unfold Store.segsOf; rw [est.ops]; exact (hjo.ok o ho').2.2, ?_⟩
    have := hpf o ho
    unfold Store.pidOf at this ⊢
    rw [est.ops]; exact this
  have hJ := poolsReady_of_built w w1 asgs inv.ready hb hseg0 hpar
  have hfacts : StepsP TickTarget w1.store w2.store ∧ (∀ p ∈ w2.pools, AllC (Good F w1.store) p.active ∧ p.suspending = []) ∧
      (∀ r ∈ cs2.map mkRes, ∃ c, Good F w1.store c ∧ r = mkRes c) ∧ ∀ p ∈ w2.pools, PoolZT p := by
    unfold World.execTick at hex
    split at hex
    · cases hex
    · split at hex
      · cases hex
      · cases hex
      · rename_i s ps n rr hexp
        simp only [Except.ok.injEq, Prod.mk.injEq] at hex
        obtain ⟨rfl, hrr⟩ := hex
        obtain ⟨t, _⟩ := execPools_targets w1.cfg asgs w1.pools w1.store w1.nextCid [] [] s ps n rr hJ.live
          (by intro p hp; simp only [List.nil_append] at hp; exact (hgood1 p hp).2) hexp
        obtain ⟨o1, o2⟩ := execPools_kept w1.cfg asgs (good_kept w1.cfg F w1.store) hgoodA
          w1.pools w1.store w1.nextCid [] [] s ps n rr (by intro p hp; simp only [List.nil_append] at hp; exact hgood1 p hp) (by simp) hexp
        have hz := execPools_zt w1.cfg asgs (good_kept w1.cfg F w1.store) (fun c hc => ⟨hc.2.2.2.1, hc.2.2.2.2⟩) hgoodA
          w1.pools w1.store w1.nextCid [] [] s ps n rr hJ (by intro p hp; simp only [List.nil_append] at hp; exact hgood1 p hp) (by simp)
          (by intro j p hjp
              simp only [List.length_nil, Nat.zero_add]
              rw [e1] at hjp
              have hjlt : j < w.pools.length := (List.getElem?_eq_some_iff.mp hjp).1
              obtain ⟨bc, br⟩ := hbud j
              obtain ⟨sc, sr⟩ := C08.snaps_getD w j hjlt
              have hpd : w.pools.getD j default = p := by rw [List.getD_eq_getElem?_getD, hjp]; rfl
              rw [hpd] at sc sr
              obtain ⟨z1, z2, z3⟩ := hsnE j (by rw [inv.two] at hjlt; exact hjlt)
              unfold PostZT
              have ec : p.availC - cpuReq (asgs.filter (·.pool == j)) = (snE.getD j default).availC := by
                have : C08.on asgs j = asgs.filter (·.pool == j) := rfl
                rw [this] at bc; omega
              have er : p.availR - ramReq (asgs.filter (·.pool == j)) = (snE.getD j default).availR := by
                have : C08.on asgs j = asgs.filter (·.pool == j) := rfl
                rw [this] at br; omega
              rw [ec, er]
              exact ⟨z1, z2, z3⟩)
          hexp
        rw [← hrr]
        exact ⟨t, o1, o2, hz⟩
  obtain ⟨tt, hp2, hr2, hzt2⟩ := hfacts
  have hkeepP : ∀ o, (w1.store.stOf o = pending ∨ w1.store.stOf o = failed) → w2.store.stOf o = w1.store.stOf o := by
    intro o ho
    apply tickTargets_keep tt
    rcases ho with e | e
    · exact Or.inl e
    · exact Or.inr (Or.inl e)
  have hassignable : ∀ {o : Nat}, w1.store.stOf o ∈ assignable → (w1.store.stOf o = pending ∨ w1.store.stOf o = failed) := by
    intro o h
    simpa [assignable] using h
  refine ⟨w1, st1, { sus := [], asgs := asgs }, w2, cs2, hrd, hex,
    ⟨r2, ?_, ?_, ?_, ?_, hfin2, by rw [c2, e2]; exact inv.multi, by rw [c2, e2]; exact inv.q, ?_, hzt2, ?_, ?_, (List.nodup_append.mp inv.fnd).2.1, ?_,
      fun p hp c hc => good_mono ((hp2 p hp).1 c hc) st2 (fun x hx => hx), ?_, hnd2, ?_⟩⟩
  · intro pid
    rw [p2, Naive.built_pipes hb, st2.size, est.size]
    exact inv.wfp pid
  · intro pid r hrr
    rw [p2, Naive.built_pipes hb] at hrr
    unfold Store.segsOf; rw [st2.ops, est.ops]; exact inv.segs pid r hrr
  · intro pid r hrr
    rw [p2, Naive.built_pipes hb] at hrr
    unfold Store.pidOf; rw [st2.ops, est.ops]; exact inv.pid pid r hrr
  · intro pid pre r post ho q hq
    rw [p2, Naive.built_pipes hb] at ho
    have hq' : q ∈ w.store.parentsOf r := by unfold Store.parentsOf at hq ⊢; rw [← est.ops, ← st2.ops]; exact hq
    exact inv.topo pid pre r post ho q hq'
  · -- two pools still
    have hg1 : w1.PoolsGood := by
      intro p hp; rw [e1] at hp; rw [e2, e3]; exact (inv.ready.pools p hp).1.1
    obtain ⟨_, hcaps, _⟩ := execTick_good_ok hg1 hex
    have : w2.caps.length = w1.caps.length := by rw [hcaps]
    simp only [World.caps, List.length_map] at this
    rw [this, e1]; exact inv.two
  · -- the queues after the tick
    refine ⟨hj1.nd, fun j hj => ?_⟩
    apply jobOKm_keep st2 _ (hj1.ok j hj)
    intro x hx
    exact hkeepP x (hassignable ((hj1.ok j hj).ok x hx).2.1)
  · intro o ho
    have := hF1 o ho
    unfold Store.pidOf at this ⊢
    rw [st2.ops, est.ops]; exact this
  · -- the pipelines still to arrive are untouched
    intro pid hpidF
    rw [p2, Naive.built_pipes hb]
    obtain ⟨hne, hpend⟩ := inv.fut pid (List.mem_append_right _ hpidF)
    refine ⟨hne, fun o ho => ?_⟩
    have hnot : o ∉ asgs.flatMap (·.ops) := by
      intro hin
      obtain ⟨a, ha, hoa⟩ := List.mem_flatMap.mp hin
      obtain ⟨_, _, _, _, hpf⟩ := hall a ha
      exact hpf o hoa (by rw [inv.pid pid o ho]; exact hpidF)
    have h1 : w1.store.stOf o = pending := by rw [b4 o hnot]; exact hpend o ho
    rw [hkeepP o (Or.inl h1)]; exact h1
  · intro c hc
    obtain ⟨f, hcc⟩ := hcs2 c hc
    obtain ⟨c', hg', e'⟩ := hr2 (mkRes c) (List.mem_map_of_mem hc)
    obtain ⟨eo, ek⟩ := mkRes_same e'
    exact ⟨f, hcc, good_mono (good_of_same eo ek hg') st2 (fun x hx => hx)⟩
  · -- operators of the new results were busy when the tick began; the queued ones were not
    intro o ho hin
    obtain ⟨j, hj, hoj⟩ := List.mem_flatMap.mp hin
    have h1 := ((hj1.ok j hj).ok o hoj).2.1
    have h2 := hbusy2 o ho
    rcases hassignable h1 with e | e <;> rcases h2 with f | f | f <;> rw [e] at f <;> cases f

/-- the simulator's main loop for the priority-pool scheduler -/
def loop : World → St → List Res → List (List Nat) → Except Err (World × St × List Res)
  | w, st, res, [] => .ok (w, st, res)
  | w, st, res, newP :: rest =>
    match ppRound w st res newP with
    | .error e => .error e.1
    | .ok (w1, st1, dec) =>
      match w1.execTick dec.sus dec.asgs with
      | .error e => .error e.1
      | .ok (w2, res2) => loop w2 st1 res2 rest

/-- **the priority-pool scheduler with multi-operator containers drives any run to its last tick without raising**: from a world that satisfies `PPInv`
(two ready pools without write-outs whose free CPU is zero exactly when their free RAM is; well-formed pipelines listed in dependency order; good queues; every
container with its record straight), for every sequence of arrival batches in which no pipeline arrives twice and every arriving pipeline is untouched -/
theorem run_never_raises : ∀ (arrivals : List (List Nat)) (w : World) (st : St) (cs : List Ctr), PPInv w st cs arrivals.flatten →
    ∃ w' st' cs', loop w st (cs.map mkRes) arrivals = .ok (w', st', cs'.map mkRes) ∧ PPInv w' st' cs' [] := by
  intro arrivals
  induction arrivals with
  | nil => intro w st cs inv; exact ⟨w, st, cs, rfl, by simpa using inv⟩
  | cons newP rest ih =>
    intro w st cs inv
    simp only [List.flatten_cons] at inv
    obtain ⟨w1, st1, dec, w2, cs2, h1, h2, inv2⟩ := pp_tick_never_raises w st cs newP rest.flatten inv
    obtain ⟨w', st', cs', ho, inv'⟩ := ih w2 st1 cs2 inv2
    exact ⟨w', st', cs', by unfold loop; rw [h1]; simp only; rw [h2]; exact ho, inv'⟩

end Eudoxia.PP
