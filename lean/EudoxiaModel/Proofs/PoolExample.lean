import EudoxiaModel.Proofs.PoolLoop
import EudoxiaModel.Proofs.NaiveExample
/-! The concrete world of `NaiveExample` (a diamond DAG, two pools, nothing started, multi-operator containers) meets every hypothesis of the priority-pool
    closed-loop theorem, with its one pipeline still to arrive. -/
namespace Eudoxia.PoolExample
open Eudoxia OpState Extracted

theorem inv : PP.PPInv (NaiveExample.world true) {} [] [0] := by
  have ni := NaiveExample.naiveInv true
  refine ⟨NaiveExample.ready true, NaiveExample.wfp true, NaiveExample.segsOK true, ni.pid, ni.topo, fresh_world_finOK _ _ _ _, rfl, by decide, rfl, ?_,
    ⟨by simp [Prio.St.jobs], by intro j hj; simp [Prio.St.jobs] at hj⟩, by intro o ho; simp [Prio.St.jobs] at ho, by simp, ?_, ?_, by simp, by simp [allUnf],
    by intro o ho; simp [allUnf] at ho⟩
  · intro p hp
    simp only [NaiveExample.world, List.map_cons, List.map_nil, List.mem_cons, List.not_mem_nil, or_false] at hp
    rcases hp with rfl | rfl <;> (unfold PP.PoolZT Pool.fresh; simp)
  · intro pid hp
    simp only [List.mem_singleton] at hp
    subst hp
    rw [NaiveExample.order_of]
    simp only [↓reduceIte]
    refine ⟨by simp, fun o ho => ?_⟩
    rw [NaiveExample.world_store]
    rcases NaiveExample.four o ho with rfl | rfl | rfl | rfl <;> decide
  · intro p hp c hc
    simp only [NaiveExample.world, List.map_cons, List.map_nil, List.mem_cons, List.not_mem_nil, or_false] at hp
    rcases hp with rfl | rfl <;> simp [Pool.fresh] at hc

theorem flatten_arrivals (n : Nat) : (([0] : List Nat) :: List.replicate n []).flatten = [0] := by
  induction n with
  | zero => rfl
  | succ k ih => simp only [List.replicate_succ, List.flatten_cons, List.nil_append] at ih ⊢; exact ih

/-- the pipeline arrives in the first tick; however many ticks follow, the run does not raise -/
theorem runs (n : Nat) : ∃ out, PP.loop (NaiveExample.world true) {} [] ([0] :: List.replicate n []) = .ok out := by
  have h := PP.run_never_raises ([0] :: List.replicate n []) (NaiveExample.world true) {} [] (by rw [flatten_arrivals]; exact inv)
  obtain ⟨w', st', cs', h', _⟩ := h
  exact ⟨_, h'⟩

end Eudoxia.PoolExample
