import EudoxiaModel.Model.Exec
import EudoxiaModel.Model.Hyp
import EudoxiaModel.Model.Dag
import EudoxiaModel.Model.Profile
import EudoxiaModel.Model.Trace
import EudoxiaModel.Model.Gen
import EudoxiaModel.Model.Csv
import EudoxiaModel.Model.Rest
import EudoxiaModel.Model.Sched.Naive
import EudoxiaModel.Model.Sched.Overbook
import EudoxiaModel.Model.Sched.Priority
import Driver.Json
/-! Line-protocol driver: one command per input line, one JSON observation per output line. -/
open Eudoxia

inductive SS
  | none
  | naive (multi : Bool) (s : Naive.St)
  | over (s : Overbook.St)
  | pp (s : Prio.St)
  | pr (s : Prio.St)

structure DS where
  w : World := { cfg := { tps := 1, q := 1, g := 1 } }
  ss : SS := .none
  lastRes : List Res := []
  pendSusp : List (Nat × Nat) := []
  pendAsg : List Asg := []
  dead : Bool := false

def parseFracs (s : String) : List (Nat × Nat) :=
  if s == "-" then [] else (s.splitOn ",").map (fun t => match t.splitOn "/" with
    | [a, b] => (a.toNat!, b.toNat!) | [a] => (a.toNat!, 1) | _ => (0, 1))

def parseList (s : String) : List Nat :=
  if s == "-" then [] else (s.splitOn ",").map String.toNat!

def jarr (l : List String) : String := "[" ++ ",".intercalate l ++ "]"
def jb (b : Bool) : String := if b then "true" else "false"
def jstr (s : String) : String := "\"" ++ s ++ "\""

def showPool (p : Pool) : String :=
  "{\"ac\":" ++ toString p.availC ++ ",\"ar\":" ++ toString p.availR ++ ",\"cons\":" ++ toString p.consumed ++
  ",\"capc\":" ++ toString p.capC ++ ",\"capr\":" ++ toString p.capR ++
  ",\"A\":" ++ jarr (p.active.map (fun c => jarr [toString c.cid, toString c.cpu, toString c.ram, toString c.mem,
      (if c.canSuspend then "1" else "0"), toString c.curOpIdx, toString c.elapsed, jarr (c.ops.map toString)])) ++
  ",\"S\":" ++ jarr (p.suspending.map (fun c => jarr [toString c.cid, toString c.cpu, toString c.ram, toString c.suspLeft, toString c.curOpIdx, jarr (c.ops.map toString)])) ++
  ",\"D\":" ++ jarr (p.suspended.map (fun c => toString c.cid)) ++
  ",\"done\":" ++ toString p.numCompleted ++
  ",\"K\":{\"snap\":" ++ jarr (p.killSnap.map (fun (a, b, c, d) => jarr [toString a, toString b, toString c, (if d then "1" else "0")])) ++
  ",\"victims\":" ++ jarr (p.victims.map toString) ++ "}}"

def showStates (w : World) : String :=
  jarr (w.pipes.toList.map (fun p => jstr (String.ofList ((List.range p.n).map (fun k => (w.store.stOf (p.first + k)).letter)))))

def showCounts (w : World) : String :=
  jarr ((List.range w.pipes.size).map (fun pid => jarr (OpState.all.map (fun x => toString (w.store.count pid x)))))

def showWorld (w : World) : String :=
  "{\"st\":" ++ showStates w ++ ",\"cnt\":" ++ showCounts w ++ ",\"pools\":" ++ jarr (w.pools.map showPool) ++ "}"

def showRes (res : List Res) : String :=
  jarr (res.map (fun r => jarr [toString r.cid, (if r.ok then "1" else "0"), toString r.pool, toString r.cpu, toString r.ram, toString r.prio, jarr (r.ops.map toString)]))

def showJobs (l : List Job) : String :=
  jarr (l.map (fun j => jarr [jarr (j.ops.map toString), toString j.prio,
    (match j.retry with | some r => jarr [toString r.oldCpu, toString r.oldRam, (if r.hasErr then "1" else "0"), toString r.cid] | none => "null")]))

def showSS : SS → String
  | .none => "null"
  | .naive _ s => "{\"queue\":" ++ jarr (s.queue.map toString) ++ "}"
  | .over s => "{\"opq\":" ++ jarr (s.opq.map toString) ++ ",\"fails\":" ++ jarr (s.fails.map (fun x => jarr [toString x.1, toString x.2])) ++ "}"
  | .pp s => "{\"qry\":" ++ showJobs s.qry ++ ",\"inter\":" ++ showJobs s.inter ++ ",\"batch\":" ++ showJobs s.batch ++ ",\"susp\":[]}"
  | .pr s => "{\"qry\":" ++ showJobs s.qry ++ ",\"inter\":" ++ showJobs s.inter ++ ",\"batch\":" ++ showJobs s.batch ++
             ",\"susp\":" ++ jarr (s.susp.map (fun x => toString x.1)) ++ "}"

def showDec (dc : Decision) : String :=
  "{\"sus\":" ++ jarr (dc.sus.map (fun x => jarr [toString x.1, toString x.2])) ++
  ",\"asgs\":" ++ jarr (dc.asgs.map (fun a => jarr [toString a.pool, toString a.cpu, toString a.ram, toString a.prio, jarr (a.ops.map toString)])) ++ "}"

def schedRound (d : DS) (newP : List Nat) : Except SErr (World × SS × Decision) :=
  match d.ss with
  | .none => .ok (d.w, .none, {})
  | .naive m s => (Naive.round m d.w s d.lastRes newP).map (fun (w, s, dc) => (w, SS.naive m s, dc))
  | .over s => (Overbook.round d.w s d.lastRes newP).map (fun (w, s, dc) => (w, SS.over s, dc))
  | .pp s => (Prio.ppRound d.w s d.lastRes newP).map (fun (w, s, dc) => (w, SS.pp s, dc))
  | .pr s => (Prio.prRound d.w s d.lastRes newP).map (fun (w, s, dc) => (w, SS.pr s, dc))

def doRound (d : DS) (newP : List Nat) : DS × String :=
  match schedRound d newP with
  | .error (e, w') => ({ d with w := w' }, "{\"ok\":false,\"phase\":\"sched\",\"err\":" ++ jstr e.name ++ ",\"st\":" ++ showStates w' ++ "}")
  | .ok (w1, ss, dc) =>
    let head := "\"dec\":" ++ showDec dc ++ ",\"afterSched\":" ++ showStates w1 ++ ",\"sched\":" ++ showSS ss
    match w1.execTick dc.sus dc.asgs with
    | .error (e, none) => ({ d with w := w1, ss := ss, lastRes := [] }, "{\"ok\":false,\"phase\":\"exec\",\"err\":" ++ jstr e.name ++ "," ++ head ++ ",\"state\":null}")
    | .error (e, some w2) => ({ d with w := w2, ss := ss, lastRes := [] }, "{\"ok\":false,\"phase\":\"exec\",\"err\":" ++ jstr e.name ++ "," ++ head ++ ",\"state\":" ++ showWorld w2 ++ "}")
    | .ok (w2, res) => ({ d with w := w2, ss := ss, lastRes := res }, "{\"ok\":true," ++ head ++ ",\"state\":" ++ showWorld w2 ++ ",\"res\":" ++ showRes res ++ "}")

def gid (w : World) (pid oid : Nat) : Nat := (w.pipes.getD pid default).first + oid

def parseRefs (w : World) (s : String) : List Nat :=
  if s == "-" then [] else (s.splitOn ",").map (fun t => match t.splitOn ":" with
    | [a, b] => gid w a.toNat! b.toNat! | _ => 0)

def step (d : DS) (line : String) : DS × String :=
  match line.trimAscii.toString.splitOn " " with
  | ["cfg", tps, q, g, m, o, np, cpus, ram] =>
    let cfg : Cfg := { tps := tps.toNat!, q := q.toNat!, g := g.toNat!, multiOp := m == "1", overcommit := o == "1" }
    ({ w := { cfg := cfg, pools := List.replicate np.toNat! (Pool.fresh cpus.toNat! ram.toNat!) } },
      "{\"ok\":true,\"wf\":" ++ jb (decide cfg.WF) ++ "}")
  | ["pipe", prio] =>
    ({ d with w := d.w.addPipe prio.toNat! d.w.store.ops.size 0 [] }, "{\"ok\":true}")
  | ["op", pid, parents] =>
    let pid := pid.toNat!
    let pi := d.w.pipes.getD pid default
    let ps := (parseList parents).map (fun o => pi.first + o)
    let w := { d.w with store := d.w.store.addOp pid ps [], pipes := d.w.pipes.modify pid (fun p => { p with n := p.n + 1 }) }
    ({ d with w := w }, "{\"ok\":true}")
  | ["seg", pid, oid, bn, bd, law, fixed, read] =>
    let r := gid d.w pid.toNat! oid.toNat!
    let sg : Seg := { baseNum := bn.toNat!, baseDen := bd.toNat!, law := (Law.ofName law).getD .const,
                      fixed := if fixed == "-" then none else some fixed.toNat!, read := read.toNat! }
    let w := { d.w with store := { d.w.store with ops := d.w.store.ops.modify r (fun o => { o with segs := o.segs ++ [sg] }) } }
    ({ d with w := w }, "{\"ok\":true}")
  | ["order", pid, oids] =>
    let pid := pid.toNat!
    let pi := d.w.pipes.getD pid default
    let dag : Dag.Dag := (List.range pi.n).map (fun k => (d.w.store.parentsOf (pi.first + k)).map (· - pi.first))
    let ord := parseList oids
    let w := { d.w with pipes := d.w.pipes.modify pid (fun p => { p with order := ord.map (· + p.first) }) }
    ({ d with w := w }, "{\"ok\":true,\"topoPerm\":" ++ jb (Dag.topoPermB dag ord) ++ ",\"iter\":" ++ jarr ((Dag.iterOrder dag).map toString) ++ "}")
  | ["assign", pool, cpu, ram, prio, refs] =>
    let a : Asg := { ops := parseRefs d.w refs, cpu := cpu.toNat!, ram := ram.toNat!, prio := prio.toNat!, pool := pool.toNat! }
    match d.w.mkAssignment a with
    | .error (e, w') => ({ d with w := w' }, "{\"ok\":false,\"err\":" ++ jstr e.name ++ ",\"st\":" ++ showStates w' ++ ",\"cnt\":" ++ showCounts w' ++ "}")
    | .ok w' => ({ d with w := w', pendAsg := d.pendAsg ++ [a] }, "{\"ok\":true,\"st\":" ++ showStates w' ++ ",\"cnt\":" ++ showCounts w' ++ "}")
  | ["suspend", pool, cid] => ({ d with pendSusp := d.pendSusp ++ [(pool.toNat!, cid.toNat!)] }, "{\"ok\":true}")
  | ["tick"] =>
    match d.w.execTick d.pendSusp d.pendAsg with
    | .error (e, none) => ({ d with pendSusp := [], pendAsg := [], dead := true }, "{\"ok\":false,\"err\":" ++ jstr e.name ++ ",\"state\":null}")
    | .error (e, some w') => ({ d with w := w', pendSusp := [], pendAsg := [] }, "{\"ok\":false,\"err\":" ++ jstr e.name ++ ",\"state\":" ++ showWorld w' ++ "}")
    | .ok (w', res) => ({ d with w := w', pendSusp := [], pendAsg := [] }, "{\"ok\":true,\"state\":" ++ showWorld w' ++ ",\"res\":" ++ showRes res ++ "}")
  | ["trans", pid, oid, t] =>
    let r := gid d.w pid.toNat! oid.toNat!
    let tgt := OpState.all.getD t.toNat! .pending
    (match d.w.store.transition r tgt with
     | .error e => (d, "{\"ok\":false,\"err\":" ++ jstr e.name ++ ",\"st\":" ++ showStates d.w ++ ",\"cnt\":" ++ showCounts d.w ++ "}")
     | .ok s' => let w' := { d.w with store := s' }
                 ({ d with w := w' }, "{\"ok\":true,\"st\":" ++ showStates w' ++ ",\"cnt\":" ++ showCounts w' ++ "}"))
  | ["spec", cpu, ram, refs, adj] =>
    -- adj: '-' or a comma list of io:cpu tick-count overrides, one per segment in order
    let ops := (parseRefs d.w refs).map d.w.store.segsOf
    let base := specTicks d.w.cfg cpu.toNat! ops
    let ov : List (Nat × Nat) := if adj == "-" then [] else (adj.splitOn ",").map (fun t => match t.splitOn ":" with
      | [a, b] => (a.toNat!, b.toNat!) | _ => (0, 0))
    let ticks := if ov.isEmpty then base else
      (base.foldl (fun (acc : List (List (Nat × Nat)) × List (Nat × Nat)) row =>
        (acc.1 ++ [acc.2.take row.length], acc.2.drop row.length)) ([], ov)).1
    let o := specRunWith d.w.cfg ram.toNat! ops ticks
    let amb := ops.any (fun segs => segs.any (fun sg => (sg.cpuTicks? d.w.cfg cpu.toNat!).isNone))
    (d, "{\"ok\":true,\"mem\":" ++ jarr (o.mem.map toString) ++ ",\"idx\":" ++ jarr (o.idx.map toString) ++
        ",\"end\":" ++ toString o.endTick ++ ",\"success\":" ++ jb o.ok ++ ",\"completed\":" ++ toString o.completedOps ++
        ",\"ambiguous_log\":" ++ jb amb ++
        ",\"ticks\":" ++ jarr (base.map (fun row => jarr (row.map (fun x => jarr [toString x.1, toString x.2])))) ++ "}")
  | ["cputicks", law, bn, bd, cpus] =>
    let sg : Seg := { baseNum := bn.toNat!, baseDen := bd.toNat!, law := (Law.ofName law).getD .const }
    (d, match sg.cpuTicks? d.w.cfg cpus.toNat! with
        | some k => "{\"ok\":true,\"ticks\":" ++ toString k ++ "}"
        | none => "{\"ok\":true,\"ticks\":null}")
  | ["deliver", tps, fr] =>
    (d, "{\"ok\":true,\"ticks\":" ++ jarr ((parseFracs fr).map (fun x => toString (Trace.deliverTick x.1 x.2 tps.toNat!))) ++ "}")
  | ["replay", tps, nticks, fr] =>
    let ticks := (parseFracs fr).map (fun x => Trace.deliverTick x.1 x.2 tps.toNat!)
    (d, "{\"ok\":true,\"ticks\":" ++ jarr (ticks.map toString) ++ ",\"out\":" ++
        jarr ((Trace.replayIdx ticks nticks.toNat!).map (fun l => jarr (l.map toString))) ++ "}")
  | ["snap", tps, fr] =>
    (d, "{\"ok\":true,\"num\":" ++ jarr ((parseFracs fr).map (fun x => toString (Trace.snapNum x.1 x.2 tps.toNat!))) ++ "}")
  | ["jitter", arr, draws] =>
    (d, "{\"ok\":true,\"order\":" ++ jarr ((Trace.jitter (parseList arr) (parseList draws)).map (fun x => jarr [toString x.1, toString x.2])) ++ "}")
  | ["gen", np, wm, nticks, draws] =>
    let ds : List Gen.Draw := if draws == "-" then [] else (draws.splitOn ",").map (fun t =>
      if t.startsWith "c" then Gen.Draw.choice (t.drop 1).toString.toNat!
      else match (t.drop 1).toString.splitOn "/" with
        | [a, b] => Gen.Draw.normal ⟨(if a.startsWith "-" then - ((a.drop 1).toString.toNat! : Int) else (a.toNat! : Int)), b.toNat!⟩
        | _ => Gen.Draw.choice 0)
    let P : Gen.Params := { numPipelines := np.toNat!, waitMean := wm.toNat! }
    (match Gen.run P nticks.toNat! {} ds with
     | none =>
       -- the stream ran out or did not fit: report the ticks that could be replayed
       let rec pre (n : Nat) (s : Gen.State) (ds : List Gen.Draw) (acc : List (List Gen.PipeOut)) : List (List Gen.PipeOut) :=
         match n with
         | 0 => acc
         | n + 1 => match Gen.tick P s ds with
           | none => acc
           | some (s', ps, ds') => pre n s' ds' (acc ++ [ps])
       let out := pre nticks.toNat! {} ds []
       (d, "{\"ok\":true,\"fits\":false,\"out\":" ++
         jarr (out.map (fun ps => jarr (ps.map (fun p => jarr [toString p.id, toString p.prio, jarr (p.protos.map toString)])))) ++ "}")
     | some (out, rest) =>
       (d, "{\"ok\":true,\"fits\":true,\"left\":" ++ toString rest.length ++ ",\"out\":" ++
         jarr (out.map (fun ps => jarr (ps.map (fun p => jarr [toString p.id, toString p.prio, jarr (p.protos.map toString)])))) ++ "}"))
  | "csv-read" :: rest =>
    (d, match Lean.Json.parse (" ".intercalate rest) >>= DJ.csvRows with
        | .error e => "{\"ok\":false,\"err\":\"parse\",\"detail\":" ++ (Lean.Json.str e).compress ++ "}"
        | .ok rows => match Csv.fromRows rows with
          | .error e => "{\"ok\":true,\"error\":" ++ jstr (reprStr e) ++ "}"
          | .ok ps => "{\"ok\":true,\"pipes\":" ++ DJ.showPipes ps ++ "}")
  | "csv-write" :: rest =>
    (d, match Lean.Json.parse (" ".intercalate rest) >>= DJ.csvPipes with
        | .error e => "{\"ok\":false,\"err\":\"parse\",\"detail\":" ++ (Lean.Json.str e).compress ++ "}"
        | .ok ps => "{\"ok\":true,\"rows\":" ++ DJ.showRows (Csv.toRows ps) ++ "}")
  | ["sched", algo] =>
    let ss := if algo == "naive" then SS.naive d.w.cfg.multiOp {} else if algo == "template" then SS.naive false {}
              else if algo == "overbook" then SS.over {} else if algo == "priority-pool" then SS.pp {} else SS.pr {}
    ({ d with ss := ss }, "{\"ok\":true}")
  | ["round", newp] => doRound d (parseList newp)
  | ["reset"] => ({}, "{\"ok\":true}")
  | ["hyp", fut] =>
    -- the decidable hypotheses of the whole-run theorems (Proofs/HypCheck.lean) on the world as it stands; `fut` = the pipelines still to arrive
    (d, "{\"ok\":true,\"wfp\":" ++ jb d.w.wfpB ++ ",\"segs\":" ++ jb d.w.segsB ++ ",\"pid\":" ++ jb d.w.pidB ++ ",\"topo\":" ++ jb d.w.topoB ++
         ",\"future\":" ++ jb (d.w.futureB (parseList fut)) ++ "}")
  | "rest" :: tps :: pn :: pd :: rest =>
    (d, match Lean.Json.parse (" ".intercalate rest) >>= (fun j => do (← DJ.arr j).mapM (fun x => do
            let l ← DJ.arr x
            let comp ← DJ.natList (← DJ.nth l 2)
            return ({ newP := ← DJ.natList (← DJ.nth l 0), hasResults := (← DJ.nat (← DJ.nth l 1)) != 0, complete := fun p => comp.contains p } : Rest.In))) with
        | .error e => "{\"ok\":false,\"err\":\"parse\",\"detail\":" ++ (Lean.Json.str e).compress ++ "}"
        | .ok ins =>
          let out := Rest.run { tps := tps.toNat!, pollNum := pn.toNat!, pollDen := pd.toNat! } {} ins
          "{\"ok\":true,\"calls\":" ++ jarr (out.map (fun o => match o with
            | none => "null"
            | some p => "{\"tick\":" ++ toString p.tick ++ ",\"new\":" ++ jarr (p.newP.map toString) ++ ",\"other\":" ++
                jarr (p.other.map (fun x => jarr [toString x.1, (if x.2 then "1" else "0")])) ++ "}")) ++ "}")
  | "recount" :: rest =>
    (d, match Lean.Json.parse (" ".intercalate rest) >>= (fun j => do (← DJ.arr j).mapM DJ.tickEv) with
        | .error e => "{\"ok\":false,\"err\":\"parse\",\"detail\":" ++ (Lean.Json.str e).compress ++ "}"
        | .ok es => "{\"ok\":true,\"loop\":" ++ DJ.showStats (Sim.statsOf (Sim.loopC es)) ++ ",\"recount\":" ++ DJ.showStats (Sim.statsOf (Sim.recount es)) ++ "}")
  | "sweep" :: n :: rest =>
    (d, match Lean.Json.parse (" ".intercalate rest) >>= (fun j => do (← DJ.arr j).mapM DJ.tickH) with
        | .error e => "{\"ok\":false,\"err\":\"parse\",\"detail\":" ++ (Lean.Json.str e).compress ++ "}"
        | .ok hs =>
          let tr := Sweep.runSweep n.toNat! hs
          "{\"ok\":true,\"finished\":" ++ jarr (tr.finished.map (fun x => jarr [toString x.1, toString x.2.1, toString x.2.2])) ++
            ",\"outstanding\":" ++ jarr (tr.outstanding.map (fun x => toString x.1)) ++ "}")
  | "scheck" :: which :: rest =>
    let text := " ".intercalate rest
    match Lean.Json.parse text >>= DJ.strace with
    | .error e => (d, "{\"ok\":false,\"err\":\"parse\",\"detail\":" ++ (Lean.Json.str e).compress ++ "}")
    | .ok t =>
      let fails := checkSTrace which t
      (d, "{\"ok\":true,\"holds\":" ++ jb fails.isEmpty ++ ",\"fails\":" ++ jarr (fails.map jstr) ++ "}")
  | "check" :: which :: rest =>
    let text := " ".intercalate rest
    match Lean.Json.parse text >>= DJ.etrace with
    | .error e => (d, "{\"ok\":false,\"err\":\"parse\",\"detail\":" ++ (Lean.Json.str e).compress ++ "}")
    | .ok t =>
      let fails := checkETrace which t
      (d, "{\"ok\":true,\"holds\":" ++ jb fails.isEmpty ++ ",\"fails\":" ++ jarr (fails.map jstr) ++ "}")
  | _ => (d, "{\"ok\":false,\"err\":\"bad-op\"}")

partial def loop (h : IO.FS.Stream) (out : IO.FS.Stream) (d : DS) : IO Unit := do
  let line ← h.getLine
  if line.isEmpty then return ()
  let (d', o) := step d line
  out.putStrLn o
  out.flush
  loop h out d'

def main : IO Unit := do loop (← IO.getStdin) (← IO.getStdout) {}
