import Lean.Data.Json
import EudoxiaModel.Model.Obs
import EudoxiaModel.Model.Csv
import EudoxiaModel.Model.SObs
import EudoxiaModel.Model.Sim
import EudoxiaModel.Model.Sweep
/-! JSON → observation records (the shape produced by the harness and by the driver itself). -/
open Lean Eudoxia

namespace DJ

def nat (j : Json) : Except String Nat := j.getNat?
def int (j : Json) : Except String Int := j.getInt?
def arr (j : Json) : Except String (List Json) := do return (← j.getArr?).toList
def natList (j : Json) : Except String (List Nat) := do (← arr j).mapM nat
def field (j : Json) (k : String) : Except String Json := j.getObjVal? k
def nth (l : List Json) (i : Nat) : Except String Json :=
  match l[i]? with | some x => pure x | none => throw s!"index {i}"

def states (j : Json) : Except String (List OpState) := do
  let strs ← (← arr j).mapM (fun x => x.getStr?)
  let cs := (String.join strs).toList
  cs.mapM (fun c => match OpState.ofLetter c with | some s => pure s | none => throw s!"state {c}")

def counts (j : Json) : Except String (List (List Nat)) := do (← arr j).mapM natList

def ctr (j : Json) : Except String CtrObs := do
  let l ← arr j
  return { cid := ← nat (← nth l 0), cpu := ← nat (← nth l 1), ram := ← nat (← nth l 2), mem := ← nat (← nth l 3),
           canSuspend := (← nat (← nth l 4)) != 0, idx := ← nat (← nth l 5), elapsed := ← nat (← nth l 6), ops := ← natList (← nth l 7) }

def sus (j : Json) : Except String SusObs := do
  let l ← arr j
  return { cid := ← nat (← nth l 0), cpu := ← nat (← nth l 1), ram := ← nat (← nth l 2), left := ← int (← nth l 3),
           idx := ← nat (← nth l 4), ops := ← natList (← nth l 5) }

def pool (j : Json) : Except String PoolObs := do
  return { ac := ← int (← field j "ac"), ar := ← int (← field j "ar"), cons := ← int (← field j "cons"),
           capc := ← nat (← field j "capc"), capr := ← nat (← field j "capr"),
           A := ← (← arr (← field j "A")).mapM ctr, S := ← (← arr (← field j "S")).mapM sus,
           D := ← natList (← field j "D"), done := ← nat (← field j "done"),
           snap := ← (match j.getObjVal? "K" with
             | .ok k => do (← arr (← field k "snap")).mapM (fun r => do
                 let l ← arr r
                 return (← nat (← nth l 0), ← nat (← nth l 1), ← nat (← nth l 2), (← nat (← nth l 3)) != 0))
             | .error _ => pure []),
           victims := ← (match j.getObjVal? "K" with
             | .ok k => do natList (← field k "victims")
             | .error _ => pure []) }

def world (j : Json) : Except String WorldObs := do
  return { st := ← states (← field j "st"), cnt := ← counts (← field j "cnt"), pools := ← (← arr (← field j "pools")).mapM pool }

def res (j : Json) : Except String ResObs := do
  let l ← arr j
  return { cid := ← nat (← nth l 0), ok := (← nat (← nth l 1)) != 0, pool := ← nat (← nth l 2), cpu := ← nat (← nth l 3),
           ram := ← nat (← nth l 4), prio := ← nat (← nth l 5), ops := ← natList (← nth l 6) }

def optStr (j : Json) : Option String := match j with | .str s => some s | _ => none

def stepObs (j : Json) : Except String StepObs := do
  let l ← arr j
  let kind ← (← nth l 0).getStr?
  if kind == "assign" then
    let a ← nth l 1
    let asg : Asg := { ops := ← natList (← field a "ops"), cpu := ← nat (← field a "cpu"), ram := ← nat (← field a "ram"),
                       prio := ← nat (← field a "prio"), pool := ← nat (← field a "pool") }
    return .assign asg (optStr (← nth l 2)) (← states (← nth l 3)) (← counts (← nth l 4))
  else if kind == "suspend" then
    return .suspend (← nat (← nth l 1)) (← nat (← nth l 2))
  else if kind == "tick" then
    let st ← nth l 2
    let w ← (if st.isNull then pure none else do return some (← world st))
    return .tick (optStr (← nth l 1)) w (← (← arr (← nth l 3)).mapM res)
  else throw s!"step kind {kind}"

def cfg (j : Json) : Except String Cfg := do
  return { tps := ← nat (← field j "tps"), q := ← nat (← field j "q"), g := ← nat (← field j "g"),
           multiOp := ← (← field j "multi").getBool?, overcommit := ← (← field j "over").getBool? }

def etrace (j : Json) : Except String ETrace := do
  let o ← field j "ops"
  return { cfg := ← cfg (← field j "cfg"),
           ops := { pid := ← natList (← field o "pid"), parents := ← (← arr (← field o "parents")).mapM natList },
           init := ← world (← field j "init"),
           steps := ← (← arr (← field j "steps")).mapM stepObs }

def job (j : Json) : Except String JobObs := do
  let l ← arr j
  let r ← nth l 2
  let retry ← (if r.isNull then pure none else do
    let x ← arr r
    return some (← nat (← nth x 0), ← nat (← nth x 1), (← nat (← nth x 2)) != 0, (← int (← nth x 3)).toNat))
  return { ops := ← natList (← nth l 0), prio := ← nat (← nth l 1), retry := retry }

def optField (j : Json) (k : String) : Option Json := (j.getObjVal? k).toOption

def qobs (j : Json) : Except String QObs := do
  if j.isNull then return {}
  let lst (k : String) : Except String (List Nat) := match optField j k with
    | some v => do (← arr v).mapM (fun x => do return (← int x).toNat)
    | none => pure []
  let jobs (k : String) : Except String (List JobObs) := match optField j k with | some v => do (← arr v).mapM job | none => pure []
  let fails ← (match optField j "fails" with
    | some v => do (← arr v).mapM (fun x => do let l ← arr x; return (← nat (← nth l 0), ← nat (← nth l 1)))
    | none => pure [])
  return { queue := ← lst "queue", opq := ← lst "opq", fails := fails, qry := ← jobs "qry", inter := ← jobs "inter",
           batch := ← jobs "batch", susp := ← lst "susp" }

def asgOf (j : Json) : Except String Asg := do
  let l ← arr j
  return { pool := ← nat (← nth l 0), cpu := ← nat (← nth l 1), ram := ← nat (← nth l 2), prio := ← nat (← nth l 3), ops := ← natList (← nth l 4) }

def sround (j : Json) : Except String SRound := do
  let dec := optField j "dec"
  let sus ← (match dec with
    | some d => do (← arr (← field d "sus")).mapM (fun x => do let l ← arr x; return (← nat (← nth l 0), (← int (← nth l 1)).toNat))
    | none => pure [])
  let asgs ← (match dec with | some d => do (← arr (← field d "asgs")).mapM asgOf | none => pure [])
  let after ← (match optField j "afterSched" with | some a => states a | none => (match optField j "st" with | some a => states a | none => pure []))
  let q ← (match optField j "sched" with | some a => qobs a | none => pure {})
  let st := optField j "state"
  let post ← (match st with | some w => (if w.isNull then pure none else do return some (← world w)) | none => pure none)
  let res ← (match optField j "res" with | some r => do (← arr r).mapM res | none => pure [])
  return { newP := ← natList (← field j "newP"), sus := sus, asgs := asgs, afterSched := after, q := q,
           err := (optField j "err").bind optStr, phase := ((optField j "phase").bind optStr).getD "", post := post, res := res }

def strace (j : Json) : Except String STrace := do
  let o ← field j "ops"
  return { cfg := ← cfg (← field j "cfg"), algo := ← (← field j "algo").getStr?,
           ops := { pid := ← natList (← field o "pid"), parents := ← (← arr (← field o "parents")).mapM natList },
           prios := ← natList (← field j "prios"), init := ← world (← field j "init"),
           rounds := ← (← arr (← field j "rounds")).mapM sround }

def tickEv (j : Json) : Except String Sim.TickEv := do
  let l ← arr j
  return { arrivals := ← natList (← nth l 0), nAsg := ← nat (← nth l 1), nSus := ← nat (← nth l 2),
           results := ← (← arr (← nth l 3)).mapM (fun x => do let y ← arr x; return ((← nat (← nth y 0)) != 0, ← nat (← nth y 1))),
           finished := ← (← arr (← nth l 4)).mapM (fun x => do let y ← arr x; return (← nat (← nth y 0), ← nat (← nth y 1))) }

def tickH (j : Json) : Except String Sweep.TickH := do
  let l ← arr j
  return { arr := ← (← arr (← nth l 0)).mapM (fun x => do let y ← arr x; return (← nat (← nth y 0), ← natList (← nth y 1))),
           hasRes := (← nat (← nth l 1)) != 0, completed := ← natList (← nth l 2) }

def showFrac (o : Option (Nat × Nat)) : String := match o with | some (a, b) => "[" ++ toString a ++ "," ++ toString b ++ "]" | none => "null"
def showClass (c : Sim.ClassStats) : String :=
  "{\"arrivals\":" ++ toString c.arrivals ++ ",\"completions\":" ++ toString c.completions ++ ",\"mean\":" ++ showFrac c.mean ++ ",\"p99\":" ++ showFrac c.p99 ++ "}"
def showStats (s : Sim.Stats) : String :=
  "{\"created\":" ++ toString s.created ++ ",\"containers_completed\":" ++ toString s.containersCompleted ++ ",\"assignments\":" ++ toString s.asg ++
  ",\"suspensions\":" ++ toString s.sus ++ ",\"failures\":" ++ toString s.failures ++ ",\"ctr_p99\":" ++ showFrac s.ctrP99 ++
  ",\"all\":" ++ showClass s.all ++ ",\"query\":" ++ showClass s.query ++ ",\"interactive\":" ++ showClass s.interactive ++ ",\"batch\":" ++ showClass s.batch ++ "}"

def optV (j : Json) : Option String := match j with | .str s => some s | _ => none

def csvRow (j : Json) : Except String Csv.Row := do
  let l ← arr j
  return { pid := ← nat (← nth l 0), arrival := optV (← nth l 1), prio := ← (← nth l 2).getStr?, opId := ← nat (← nth l 3),
           parents := ← natList (← nth l 4), base := ← (← nth l 5).getStr?, law := ← (← nth l 6).getStr?,
           mem := optV (← nth l 7), read := ← (← nth l 8).getStr? }

def csvRows (j : Json) : Except String (List Csv.Row) := do (← arr j).mapM csvRow

def csvOp (j : Json) : Except String Csv.COp := do
  let l ← arr j
  return { parents := ← natList (← nth l 0), base := ← (← nth l 1).getStr?, law := ← (← nth l 2).getStr?,
           mem := optV (← nth l 3), read := ← (← nth l 4).getStr? }

def csvPipes (j : Json) : Except String (List Csv.CPipe) := do
  (← arr j).mapM (fun p => do
    let l ← arr p
    return { prio := ← (← nth l 0).getStr?, arrival := ← (← nth l 1).getStr?, ops := ← (← arr (← nth l 2)).mapM csvOp })

def js (s : String) : String := (Json.str s).compress
def jopt (o : Option String) : String := match o with | some s => js s | none => "null"
def jl (l : List String) : String := "[" ++ ",".intercalate l ++ "]"

def showPipes (ps : List Csv.CPipe) : String :=
  jl (ps.map (fun p => jl [js p.prio, js p.arrival, jl (p.ops.map (fun o =>
    jl [jl (o.parents.map toString), js o.base, js o.law, jopt o.mem, js o.read]))]))

def showRows (rs : List Csv.Row) : String :=
  jl (rs.map (fun r => jl [toString r.pid, jopt r.arrival, js r.prio, toString r.opId, jl (r.parents.map toString),
    js r.base, js r.law, jopt r.mem, js r.read]))

end DJ
