import Lean.Data.Json
import EudoxiaModel.Model.Obs
/-! JSON → observation records (the shape produced by the harness and by the driver itself). -/
open Lean Eudoxia

namespace DJ

def nat (j : Json) : Except String Nat := j.getNat?
def int (j : Json) : Except String Int := j.getInt?
def arr (j : Json) : Except String (List Json) := do return (← j.getArr?).toList
def natList (j : Json) : Except String (List Nat) := do (← arr j).mapM nat
def field (j : Json) (k : String) : Except String Json := j.getObjVal? k
def nth (l : List Json) (i : Nat) : Except String Json :=
  match l[i]? with | some x => pure x | none => throw s!"index {i}"

def states (j : Json) : Except String (List OpState) := do
  let strs ← (← arr j).mapM (fun x => x.getStr?)
  let cs := (String.join strs).toList
  cs.mapM (fun c => match OpState.ofLetter c with | some s => pure s | none => throw s!"state {c}")

def counts (j : Json) : Except String (List (List Nat)) := do (← arr j).mapM natList

def ctr (j : Json) : Except String CtrObs := do
  let l ← arr j
  return { cid := ← nat (← nth l 0), cpu := ← nat (← nth l 1), ram := ← nat (← nth l 2), mem := ← nat (← nth l 3),
           canSuspend := (← nat (← nth l 4)) != 0, idx := ← nat (← nth l 5), elapsed := ← nat (← nth l 6), ops := ← natList (← nth l 7) }

def sus (j : Json) : Except String SusObs := do
  let l ← arr j
  return { cid := ← nat (← nth l 0), cpu := ← nat (← nth l 1), ram := ← nat (← nth l 2), left := ← int (← nth l 3),
           idx := ← nat (← nth l 4), ops := ← natList (← nth l 5) }

def pool (j : Json) : Except String PoolObs := do
  return { ac := ← int (← field j "ac"), ar := ← int (← field j "ar"), cons := ← int (← field j "cons"),
           capc := ← nat (← field j "capc"), capr := ← nat (← field j "capr"),
           A := ← (← arr (← field j "A")).mapM ctr, S := ← (← arr (← field j "S")).mapM sus,
           D := ← natList (← field j "D"), done := ← nat (← field j "done"),
           snap := ← (match j.getObjVal? "K" with
             | .ok k => do (← arr (← field k "snap")).mapM (fun r => do
                 let l ← arr r
                 return (← nat (← nth l 0), ← nat (← nth l 1), ← nat (← nth l 2), (← nat (← nth l 3)) != 0))
             | .error _ => pure []),
           victims := ← (match j.getObjVal? "K" with
             | .ok k => do natList (← field k "victims")
             | .error _ => pure []) }

def world (j : Json) : Except String WorldObs := do
  return { st := ← states (← field j "st"), cnt := ← counts (← field j "cnt"), pools := ← (← arr (← field j "pools")).mapM pool }

def res (j : Json) : Except String ResObs := do
  let l ← arr j
  return { cid := ← nat (← nth l 0), ok := (← nat (← nth l 1)) != 0, pool := ← nat (← nth l 2), cpu := ← nat (← nth l 3),
           ram := ← nat (← nth l 4), prio := ← nat (← nth l 5), ops := ← natList (← nth l 6) }

def optStr (j : Json) : Option String := match j with | .str s => some s | _ => none

def stepObs (j : Json) : Except String StepObs := do
  let l ← arr j
  let kind ← (← nth l 0).getStr?
  if kind == "assign" then
    let a ← nth l 1
    let asg : Asg := { ops := ← natList (← field a "ops"), cpu := ← nat (← field a "cpu"), ram := ← nat (← field a "ram"),
                       prio := ← nat (← field a "prio"), pool := ← nat (← field a "pool") }
    return .assign asg (optStr (← nth l 2)) (← states (← nth l 3)) (← counts (← nth l 4))
  else if kind == "suspend" then
    return .suspend (← nat (← nth l 1)) (← nat (← nth l 2))
  else if kind == "tick" then
    let st ← nth l 2
    let w ← (if st.isNull then pure none else do return some (← world st))
    return .tick (optStr (← nth l 1)) w (← (← arr (← nth l 3)).mapM res)
  else throw s!"step kind {kind}"

def cfg (j : Json) : Except String Cfg := do
  return { tps := ← nat (← field j "tps"), q := ← nat (← field j "q"), g := ← nat (← field j "g"),
           multiOp := ← (← field j "multi").getBool?, overcommit := ← (← field j "over").getBool? }

def etrace (j : Json) : Except String ETrace := do
  let o ← field j "ops"
  return { cfg := ← cfg (← field j "cfg"),
           ops := { pid := ← natList (← field o "pid"), parents := ← (← arr (← field o "parents")).mapM natList },
           init := ← world (← field j "init"),
           steps := ← (← arr (← field j "steps")).mapM stepObs }

end DJ
