"""Layer S: a real Scheduler + Executor closed loop against the Lean scheduler + executor models,
on the same arrivals; every round's decision, scheduler queues and world are compared."""
import atexit, contextlib, importlib, io, logging, os, random, shutil, sys, tempfile
from fractions import Fraction as F
from common import REPO, Driver, fstr, num
from layer_e import Impl, quantum, to_q, classify, setup_lines, order_lines, NonLattice, project, FULL
import gen_e

logging.disable(logging.CRITICAL)
if REPO not in sys.path:
    sys.path.insert(0, REPO)

ALGOS = ["naive", "template", "overbook", "priority-pool", "priority"]
_template_name = None


def template_scheduler():
    """instantiate the starter scheduler written by `eudoxia init -s NAME` and import it (once per process)"""
    global _template_name
    if _template_name:
        return _template_name
    from eudoxia.__main__ import main
    name = f"verif_tmpl_{os.getpid()}"
    td = tempfile.mkdtemp(prefix="verif_tmpl_")
    atexit.register(shutil.rmtree, td, True)     # nothing is left under /tmp when the check ends
    with contextlib.redirect_stdout(io.StringIO()):
        main(["init", os.path.join(td, "p.toml"), "-s", name, "-f"])
    sys.path.insert(0, td)
    importlib.import_module(name)
    _template_name = name
    return name


def classify_s(e):
    m = str(e)
    if "invalid pool" in m or "non-assignable state" in m or isinstance(e, ValueError) or "no incomplete operators" in m:
        return "schedAssert"
    return classify(e)


class ImplS(Impl):
    def __init__(self, sc):
        super().__init__(sc)
        from eudoxia.scheduler import Scheduler
        c = sc["cfg"]
        algo = sc["algo"]
        self.algo = algo
        real = template_scheduler() if algo == "template" else algo
        self.sched = Scheduler(self.ex, scheduler_algo=real, multi_operator_containers=c["multi"],
                               allow_memory_overcommit=c["over"], duration=10 ** 6, ticks_per_second=c["tps"])
        # a second scheduler of the same kind with the opposite container mode, on the decoy executor, created afterwards and kept alive: how it is
        # configured is its own business (no module-level or class-level setting may leak from one scheduler to another)
        try:
            self.decoy_sched = Scheduler(self.decoy, scheduler_algo=real, multi_operator_containers=not c["multi"],
                                         allow_memory_overcommit=not c["over"], duration=10 ** 6, ticks_per_second=c["tps"])
        except AssertionError:
            self.decoy_sched = None        # priority-pool insists on two pools
        self.results = []
        self.pipe_index = {id(pl): i for i, (pl, _) in enumerate(self.pipes)}

    def jobs(self, q):
        out = []
        for j in q:
            rs = j.retry_stats
            out.append([[self.gid_of(o) for o in j.ops], j.priority.value,
                        None if rs is None else [rs.old_cpu, self.qv(rs.old_ram), int(rs.error is not None), self.cids.get(rs.container_id, -1)]])
        return out

    def sched_state(self):
        """the scheduler's own bookkeeping, read from its attributes.  It is an observation, not an interface: if an attribute is missing or holds something
        of another shape than in the unchanged code, that is reported as a difference (the model's state will not match), never as a harness error"""
        try:
            return self._sched_state()
        except Exception as e:
            return {"unreadable": f"{type(e).__name__}: {str(e)[:80]}"}

    def _sched_state(self):
        s = self.sched
        if self.algo in ("naive", "template"):
            return {"queue": [self.pipe_index[id(p)] for p in s.waiting_queue]}
        if self.algo == "overbook":
            idx = {pl.pipeline_id: i for i, (pl, _) in enumerate(self.pipes)}
            return {"opq": [self.gid_of(o) for o in s.op_queue],
                    "fails": sorted([idx[k], v] for k, v in s.pipeline_failures.items() if v > 0)}
        return {"qry": self.jobs(s.qry_jobs), "inter": self.jobs(s.interactive_jobs), "batch": self.jobs(s.batch_ppln_jobs),
                "susp": [self.cids.get(k, -1) for k in s.suspending.keys()] if self.algo == "priority" else []}

    def round(self, new):
        pls = [self.pipes[i][0] for i in new]
        try:
            sus, asg = self.sched.run_one_tick(self.results, pls)
        except BaseException as e:
            self.results = []
            return {"ok": False, "phase": "sched", "err": classify_s(e), "st": self.states()}
        dec = {"sus": [[x.pool_id, self.cids.get(x.container_id, -1)] for x in sus],
               "asgs": [[a.pool_id, a.cpu, self.qv(a.ram), a.priority.value, [self.gid_of(o) for o in a.ops]] for a in asg]}
        head = {"dec": dec, "afterSched": self.states(), "sched": self.sched_state()}
        try:
            res = self.ex.run_one_tick(sus, asg)
        except BaseException as e:
            k = classify(e)
            self.results = []
            if k in ("overCpu", "overRam", "cannotSuspend", "opCount", "unknownPool") or (k == "noContainer" and self._before_apply(e)):
                self.register([])
                return {"ok": False, "phase": "exec", "err": k, **head, "state": self.world()}
            return {"ok": False, "phase": "exec", "err": k, **head, "state": None}
        self.register(res)
        self.results = res
        # queues hold container numbers that may only now be known: render the scheduler state again after registration
        return {"ok": True, **head, "state": self.world(), "res": self.results_obs(res)}

    def results_obs(self, res):
        return Impl.results(self, res)


def run_impl_s(sc):
    im = ImplS(sc)
    obs = []
    for new in sc["arrivals"]:
        o = im.round(new)
        obs.append(o)
        if not o["ok"] and (o.get("phase") == "sched" or o.get("state") is None):
            break
    return obs, im


def run_model_s(sc, order, drv):
    drv.send("reset")
    drv.batch(setup_lines(sc) + order_lines(sc, order))
    # the decidable hypotheses of the whole-run theorems, on this very workload (Props/C08 `checked_hypotheses_are_the_theorems_hypotheses`)
    fut = [p for a in sc["arrivals"] for p in a]
    drv.last_hyp = drv.send("hyp " + (",".join(map(str, fut)) if fut else "-"))
    drv.send(f"sched {sc['algo']}")
    obs = []
    for new in sc["arrivals"]:
        o = drv.send("round " + (",".join(map(str, new)) if new else "-"))
        obs.append(o)
        if not o["ok"] and (o.get("phase") == "sched" or o.get("state") is None):
            break
    return obs


def project_s(o, proj):
    out = project(o, proj)
    for k in ("phase",):
        if k in o:
            out[k] = o[k]
    if proj.get("dec") and "dec" in o:
        out["dec"] = o["dec"]
    if proj.get("afterSched") and "afterSched" in o:
        out["afterSched"] = o["afterSched"]
    if proj.get("sched") and "sched" in o:
        sc = dict(o["sched"]) if isinstance(o["sched"], dict) else o["sched"]
        if isinstance(sc, dict) and "fails" in sc:
            sc["fails"] = sorted(sc["fails"])
        out["sched"] = sc
    return out


FULL_S = dict(FULL, dec=True, afterSched=True, sched=True)


def first_divergence_s(iobs, mobs, proj=FULL_S):
    n = min(len(iobs), len(mobs))
    for i in range(n):
        a, b = project_s(iobs[i], proj), project_s(mobs[i], proj)
        if a != b:
            return i, a, b
    if len(iobs) != len(mobs):
        return n, "<end>" if n >= len(iobs) else iobs[n], "<end>" if n >= len(mobs) else mobs[n]
    return None


def gen_scenario(seed, algo, nticks=None, contended=None, tps_choices=(1, 2, 4, 8, 16), laws=("const",), zero_frac=0.03, pp_multi_only=True):
    rng = random.Random(seed)
    tps = rng.choice(tps_choices)
    npools = 2 if algo == "priority-pool" else rng.choice([1, 1, 2, 3, 4])
    cfg = {"tps": tps, "multi": True if (algo == "priority-pool" and pp_multi_only) else (False if algo in ("template", "overbook") and rng.random() < 0.5 else rng.random() < 0.6),
           "over": algo == "overbook", "npools": npools, "cpus": rng.choice([1, 2, 4, 8, 16, 64]),
           "ram": fstr(rng.choice([F(1, 2), 2, F(5, 2), 8, F(33, 2), 32, 64, 100, 256]))}
    if algo == "overbook":
        cfg["multi"] = rng.random() < 0.5
    nticks = nticks or rng.choice([60, 120, 200])
    npipes = rng.randint(2, 14 if (contended if contended is not None else rng.random() < 0.5) else 6)
    pipes = gen_e.gen_pipes(rng, tps, npipes, max_ops=5, laws=laws, zero_frac=zero_frac)
    arrivals = [[] for _ in range(nticks)]
    t = 0
    burst = rng.choice([0.1, 0.3, 0.6])
    for i in range(npipes):
        arrivals[min(t, nticks - 1)].append(i)
        if rng.random() > burst:
            t += rng.randint(1, max(2, nticks // (npipes + 1)))
    return {"layer": "S", "algo": algo, "cfg": cfg, "pipes": pipes, "steps": [], "arrivals": arrivals}
