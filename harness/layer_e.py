"""Layer E: the real `Executor` and the Lean model driven by the same command sequence.

A scenario is a self-contained JSON value (configuration, pipelines, steps).  `run_impl` executes it
on the code under /repo, `run_model` on the compiled Lean driver; both yield one canonical
observation per step, in the same shape, compared by `diff_obs` under a per-property projection."""
import logging, math, random, sys
from decimal import Decimal, getcontext
from fractions import Fraction as F
from math import gcd
from common import REPO, Driver, fstr, num

logging.disable(logging.CRITICAL)
if REPO not in sys.path:
    sys.path.insert(0, REPO)

LAWS = ["const", "log", "sqrt", "linear3", "linear7", "squared", "exp"]


def quantum(tps):
    """memory quanta per GB for tick rate tps: multiples of 1/64 GB are integral and g = 20 q / tps is integral"""
    q = 64 * tps // gcd(tps, 1280)
    g = 20 * q // tps
    assert g * tps == 20 * q
    return q, g


class NonLattice(Exception):
    pass


def to_q(x, q):
    f = F(x) * q
    if f.denominator != 1:
        raise NonLattice(f"{x} is not a whole number of quanta (q={q})")
    return int(f)


# ---------------------------------------------------------------- exact tick counts and float safety

def law_divisor(law, c):
    if law == "const":
        return F(1)
    if law == "linear3":
        return F(c if c < 3 else 3)
    if law == "linear7":
        return F(c if c < 7 else 7)
    if law == "squared":
        return F(c * c)
    if law == "exp":
        return F(2 ** c if c < 4 else 16)
    return None


def is_pow2(n):
    return n > 0 and n & (n - 1) == 0


def exact_cpu_ticks(base, law, c, tps):
    """(ticks, safe): exact floor(cpu_time * tps) and whether the float computation provably agrees"""
    base = F(base)
    d = law_divisor(law, c)
    if d is not None:
        v = base * tps / d
        k = math.floor(v)
        dyadic = is_pow2((base / d).denominator) and (base / d).numerator < 2 ** 40 and is_pow2(F(tps).denominator * tps)
        fr = v - k
        return k, (dyadic and is_pow2(tps)) or (F(1, 10 ** 6) <= fr <= 1 - F(1, 10 ** 6))
    getcontext().prec = 60
    x = Decimal(base.numerator) / Decimal(base.denominator) * tps
    if law == "sqrt":
        v = x / Decimal(c).sqrt()
    else:
        v = x / (Decimal(c).ln() + 1)
    k = int(v.to_integral_value(rounding="ROUND_FLOOR"))
    fr = v - k
    exact_ok = (law == "sqrt" and math.isqrt(c) ** 2 == c and is_pow2(math.isqrt(c)) and is_pow2(base.denominator) and is_pow2(tps)) or \
               (law == "log" and c == 1 and is_pow2(base.denominator) and is_pow2(tps))
    return k, exact_ok or (Decimal("1e-6") <= fr <= 1 - Decimal("1e-6"))


# ---------------------------------------------------------------- implementation side

def classify(e):
    m = str(e)
    if isinstance(e, StopIteration):
        return "stopIter"
    if isinstance(e, AttributeError):
        return "noContainer"
    if "Dependencies" in m:
        return "deps"
    if "Cannot transition" in m:
        return "badTransition"
    if "Overallocated CPU" in m:
        return "overCpu"
    if "Overallocated RAM" in m:
        return "overRam"
    if "cannot be suspended" in m:
        return "cannotSuspend"
    if "exactly 1 operator" in m or "at least 1 operator" in m:
        return "opCount"
    if "zero operators" in m:
        return "emptyAssign"
    if "positive" in m:
        return "nonPos"
    if isinstance(e, TypeError) and "not supported between instances of" in m and "'str'" in m:
        return "unknownPool"        # a pool number handed over as text: compared with the number of pools, refused before anything happens
    if "pool" in m.lower() and ("unknown" in m.lower() or "no such" in m.lower() or "invalid" in m.lower() or "out of range" in m.lower()):
        return "unknownPool"
    return "other:" + type(e).__name__ + ":" + m[:60]


CREATED = []      # identifiers of all containers created in this process, in creation order (filled by the observer below)


def install_observers():
    """record, without touching the repository, what the OOM killer sees and whom it kills"""
    from eudoxia.executor.resource_pool import ResourcePool
    from eudoxia.executor.container import Container
    if getattr(ResourcePool, "_verif_wrapped", False):
        return
    orig_killer = ResourcePool._run_out_of_memory_killer
    orig_kill = Container.kill

    def killer(self):
        self._verif_snap = [(c.container_id, c.get_current_memory_usage(), c.assignment.ram, c.is_completed())
                            for c in self.active_containers]
        self._verif_victims = []
        return orig_killer(self)

    def kill(self, *a, **kw):
        v = getattr(self.pool, "_verif_victims", None)
        if v is not None:
            v.append(self.container_id)
        return orig_kill(self, *a, **kw)

    orig_init = Container.__init__

    def init(self, *a, **kw):
        orig_init(self, *a, **kw)
        CREATED.append(self.container_id)      # creation order of containers, whatever their identifiers look like

    ResourcePool._run_out_of_memory_killer = killer
    Container.kill = kill
    Container.__init__ = init
    ResourcePool._verif_wrapped = True


class Impl:
    """the real objects for one scenario"""
    def __init__(self, sc):
        install_observers()
        from eudoxia.executor import Executor
        from eudoxia.workload.pipeline import Segment, Pipeline
        from eudoxia.workload import OperatorState
        from eudoxia.utils import Priority
        self.OperatorState, self.Priority = OperatorState, Priority
        c = sc["cfg"]
        self.tps = c["tps"]
        self.q, self.g = quantum(self.tps)
        self.sc = sc
        self.ex = Executor(c["npools"], c["cpus"], num(c["ram"]), self.tps,
                           allow_memory_overcommit=c["over"], multi_operator_containers=c["multi"])
        # a second executor with the opposite settings, created afterwards and kept alive: what it is configured with is its own business
        self.decoy = Executor(1, 1, 1, self.tps, allow_memory_overcommit=not c["over"], multi_operator_containers=not c["multi"])
        self.pipes = []
        self.gid = {}
        self.ops_by_gid = []
        self.cids = {}
        self.rcids = {}
        self.order = []
        for pid, p in enumerate(sc["pipes"]):
            pl = Pipeline(f"p{pid}", Priority(p["prio"]))
            ops = []
            for o in p["ops"]:
                op = pl.new_operator([ops[i] for i in o["parents"]] if o["parents"] else None)
                for s in o["segs"]:
                    op.add_segment(Segment(baseline_cpu_seconds=num(s["base"]), cpu_scaling=s["law"],
                                           memory_gb=None if s["fixed"] is None else num(s["fixed"]),
                                           storage_read_gb=num(s["read"])))
                self.gid[id(op)] = len(self.ops_by_gid)
                self.ops_by_gid.append(op)
                ops.append(op)
            self.order.append([ops.index(o) for o in pl.values])
            pl.runtime_status()
            self.pipes.append((pl, ops))
        self.LET = {OperatorState.PENDING: 'P', OperatorState.ASSIGNED: 'A', OperatorState.RUNNING: 'R',
                    OperatorState.SUSPENDING: 'S', OperatorState.COMPLETED: 'C', OperatorState.FAILED: 'F'}
        self.pend_a, self.pend_s = [], []
        self.next_num = len(CREATED)

    def qv(self, x):
        return to_q(F(x), self.q)

    def states(self):
        return ["".join(self.LET[pl.runtime_status().operator_states[o]] for o in ops) for pl, ops in self.pipes]

    def counts(self):
        return [[pl.runtime_status().state_counts[s] for s in self.OperatorState] for pl, _ in self.pipes]

    def register(self, results=None):
        """number the containers created since the last call, in creation order (the class-level counter
        tells exactly which ids were handed out, also for containers that started and ended inside one tick)"""
        for cid in CREATED[self.next_num:]:
            self.cids[cid] = len(self.cids)
            self.rcids[self.cids[cid]] = cid
        self.next_num = len(CREATED)

    def cid_of(self, container_id):
        """number of a container of this executor; a container that some *other* executor created (it has no business here) gets a number no container
        of the model can have, so that it shows up as a difference instead of crashing the harness"""
        if container_id in self.cids:
            return self.cids[container_id]
        self.foreign = getattr(self, "foreign", {})
        return self.foreign.setdefault(container_id, 900000 + len(self.foreign))

    def gid_of(self, op):
        """global number of an operator of the scenario; an operator object the scenario never created gets a number no operator of the model has"""
        k = self.gid.get(id(op))
        if k is None:
            self.foreign_ops = getattr(self, "foreign_ops", {})
            k = self.foreign_ops.setdefault(id(op), 800000 + len(self.foreign_ops))
        return k

    def world(self):
        pools = []
        for pool in self.ex.pools:
            A = [[self.cid_of(c.container_id), c.assignment.cpu, self.qv(c.assignment.ram), self.qv(c._current_memory),
                  int(c._can_suspend), c._current_op_idx, c._ticks_elapsed, [self.gid_of(o) for o in c.operators]]
                 for c in pool.active_containers]
            S = [[self.cid_of(c.container_id), c.assignment.cpu, self.qv(c.assignment.ram), c._suspend_ticks_left, c._current_op_idx,
                  [self.gid_of(o) for o in c.operators]] for c in pool.suspending_containers]
            D = [self.cid_of(c.container_id) for c in pool.suspended_containers]
            pools.append({"ac": pool.avail_cpu_pool, "ar": self.qv(pool.avail_ram_pool), "cons": self.qv(pool.consumed_ram_gb),
                          "capc": pool.max_cpu_pool, "capr": self.qv(pool.max_ram_pool), "A": A, "S": S, "D": D,
                          "done": pool.num_completed,
                          "K": {"snap": [[self.cid_of(c), self.qv(m), self.qv(r), int(d)] for c, m, r, d in getattr(pool, "_verif_snap", [])],
                                "victims": [self.cid_of(c) for c in getattr(pool, "_verif_victims", [])]}})
        return {"st": self.states(), "cnt": self.counts(), "pools": pools}

    def results(self, res):
        return [[self.cid_of(x.container_id), int(not x.failed()), x.pool_id, x.cpu, self.qv(x.ram), x.priority.value,
                 [self.gid_of(o) for o in x.ops]] for x in res]

    def step(self, st):
        from eudoxia.executor.assignment import Assignment, Suspend
        kind = st[0]
        if kind == "assign":
            _, pool, cpu, ram, prio, refs = st
            ops = [self.pipes[p][1][o] for p, o in refs]
            pl = self.pipes[refs[0][0]][0] if refs else self.pipes[0][0]
            try:
                if self.sc.get("listing"):
                    from eudoxia.workload.runtime_status import ASSIGNABLE_STATES
                    for plx in {id(o.pipeline): o.pipeline for o in ops}.values():
                        plx.runtime_status().get_ops(ASSIGNABLE_STATES, require_parents_complete=False)
                fl = self.sc.get("flags") or {}      # flags the executor's admission and accounting must ignore
                # an assignment flagged as a resumption may also name the container it continues (the REST protocol and `Assignment` carry the
                # field): it is still a new container, with a number of its own
                old = self.rcids[max(self.rcids)] if (fl.get("is_resume") and self.rcids) else None
                a = Assignment(ops, cpu, num(ram), self.Priority(prio), pool, pl.pipeline_id, container_id=old,
                               is_resume=bool(fl.get("is_resume")), force_run=bool(fl.get("force_run")))
                self.pend_a.append(a)
                return {"ok": True, "st": self.states(), "cnt": self.counts()}
            except BaseException as e:
                return {"ok": False, "err": classify(e), "st": self.states(), "cnt": self.counts()}
        if kind == "suspend":
            _, pool, cid = st
            self.pend_s.append(Suspend(self.rcids.get(cid, f"c{10**9 + cid}"), pool))
            return {"ok": True}
        if kind == "tick":
            sus, asg = self.pend_s, self.pend_a
            self.pend_s, self.pend_a = [], []
            try:
                res = self.ex.run_one_tick(sus, asg)
            except BaseException as e:
                k = classify(e)
                if k in ("overCpu", "overRam", "cannotSuspend", "opCount", "unknownPool") or \
                        (k == "noContainer" and self._before_apply(e)):
                    self.register([])
                    return {"ok": False, "err": k, "state": self.world()}
                return {"ok": False, "err": k, "state": None}
            self.register(res)
            return {"ok": True, "state": self.world(), "res": self.results(res)}
        raise ValueError(st)

    @staticmethod
    def _before_apply(e):
        """was the AttributeError raised by verify_valid_suspend (state untouched) rather than while applying"""
        import traceback
        return any(fr.name == "verify_valid_suspend" for fr in traceback.extract_tb(e.__traceback__))


def run_impl(sc):
    im = Impl(sc)
    obs = []
    for st in sc["steps"]:
        o = im.step(st)
        obs.append(o)
        if st[0] == "tick" and not o["ok"] and o["state"] is None:
            break
    return obs, im


# ---------------------------------------------------------------- model side

def setup_lines(sc):
    c = sc["cfg"]
    q, g = quantum(c["tps"])
    lines = [f"cfg {c['tps']} {q} {g} {int(c['multi'])} {int(c['over'])} {c['npools']} {c['cpus']} {to_q(c['ram'], q)}"]
    for pid, p in enumerate(sc["pipes"]):
        lines.append(f"pipe {p['prio']}")
        for oid, o in enumerate(p["ops"]):
            lines.append(f"op {pid} {','.join(map(str, o['parents'])) if o['parents'] else '-'}")
            for s in o["segs"]:
                b = F(s["base"])
                lines.append(f"seg {pid} {oid} {b.numerator} {b.denominator} {s['law']} "
                             f"{'-' if s['fixed'] is None else to_q(s['fixed'], q)} {to_q(s['read'], q)}")
    return lines


def mpool(pool):
    """pool number for the model (a natural number): a negative number is just another pool that does not exist, and so is a number written as text"""
    if isinstance(pool, str):
        return 2000000 + int(pool)
    return pool if pool >= 0 else 1000000 - pool


def step_line(sc, st, q):
    if st[0] == "assign":
        _, pool, cpu, ram, prio, refs = st
        pool = mpool(pool)
        return f"assign {pool} {cpu} {to_q(ram, q)} {prio} {','.join(f'{p}:{o}' for p, o in refs) if refs else '-'}"
    if st[0] == "suspend":
        return f"suspend {mpool(st[1])} {st[2]}"
    return "tick"


def order_lines(sc, order):
    return [f"order {pid} {','.join(map(str, o))}" for pid, o in enumerate(order)]


def run_model(sc, order, drv=None):
    """returns (setup observations, step observations)"""
    own = drv is None
    drv = drv or Driver()
    try:
        drv.send("reset")
        pre = drv.batch(setup_lines(sc) + order_lines(sc, order))
        q, _ = quantum(sc["cfg"]["tps"])
        obs = []
        for st in sc["steps"]:
            o = drv.send(step_line(sc, st, q))
            obs.append(o)
            if st[0] == "tick" and not o["ok"] and o["state"] is None:
                break
        return pre, obs
    finally:
        if own:
            drv.close()


# ---------------------------------------------------------------- comparison

def project_pool(p, keys):
    return {k: p[k] for k in keys if k in p}


def project(o, proj):
    """proj: dict with optional keys 'st', 'cnt', 'pool' (list of pool fields), 'A' / 'S' (column indices), 'res' (column indices)"""
    if o is None:
        return None
    out = {"ok": o.get("ok")}
    if "err" in o:
        out["err"] = o["err"]
    for src in ("state",):
        if src in o:
            s = o[src]
            if s is None:
                out["state"] = None
                continue
            ps = {}
            if proj.get("st"):
                ps["st"] = s["st"]
            if proj.get("cnt"):
                ps["cnt"] = s["cnt"]
            pools = []
            for p in s["pools"]:
                pp = {k: p[k] for k in proj.get("pool", []) if k in p}
                if "A" in proj:
                    pp["A"] = [[row[i] for i in proj["A"]] for row in p["A"]]
                if "S" in proj:
                    pp["S"] = [[row[i] for i in proj["S"]] for row in p["S"]]
                if proj.get("D"):
                    pp["D"] = p["D"]
                if proj.get("K"):
                    pp["K"] = p.get("K")
                pools.append(pp)
            ps["pools"] = pools
            out["state"] = ps
    if "st" in o and proj.get("st"):
        out["st"] = o["st"]
    if "cnt" in o and proj.get("cnt"):
        out["cnt"] = o["cnt"]
    if "res" in o and "res" in proj:
        out["res"] = sorted([[row[i] for i in proj["res"]] for row in o["res"]])
    return out


FULL = {"st": True, "cnt": True, "pool": ["ac", "ar", "cons", "capc", "capr", "done"], "A": list(range(8)), "S": list(range(6)),
        "D": True, "K": True, "res": list(range(7))}


def first_divergence(impl_obs, model_obs, proj=FULL):
    n = min(len(impl_obs), len(model_obs))
    for i in range(n):
        a, b = project(impl_obs[i], proj), project(model_obs[i], proj)
        if a != b:
            return i, a, b
    if len(impl_obs) != len(model_obs):
        return n, (impl_obs[n] if n < len(impl_obs) else "<end>"), (model_obs[n] if n < len(model_obs) else "<end>")
    return None
