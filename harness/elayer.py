"""Generic runner for the executor-level properties (layer E): generate scenarios steered by the model,
run them on the real executor, evaluate the Lean checker on the implementation trace, diff against the model."""
import copy, json, random, time
from fractions import Fraction as F
from common import TieBroken, Driver, short_hash
import layer_e
from layer_e import run_impl, run_model, first_divergence, NonLattice, quantum, to_q


def init_world(sc):
    c = sc["cfg"]
    q, _ = quantum(c["tps"])
    pools = [{"ac": c["cpus"], "ar": to_q(c["ram"], q), "cons": 0, "capc": c["cpus"], "capr": to_q(c["ram"], q),
              "A": [], "S": [], "D": [], "done": 0, "K": {"snap": [], "victims": []}} for _ in range(c["npools"])]
    return {"st": ["P" * len(p["ops"]) for p in sc["pipes"]],
            "cnt": [[len(p["ops"]), 0, 0, 0, 0, 0] for p in sc["pipes"]], "pools": pools}


def etrace_json(sc, obs):
    c = sc["cfg"]
    q, g = quantum(c["tps"])
    first, pid, parents = [], [], []
    n = 0
    for i, p in enumerate(sc["pipes"]):
        first.append(n)
        for o in p["ops"]:
            pid.append(i)
            parents.append([n + x for x in o["parents"]])
        n += len(p["ops"])
    steps = []
    for st, o in zip(sc["steps"], obs):
        if st[0] == "assign":
            _, pool, cpu, ram, prio, refs = st
            a = {"pool": layer_e.mpool(pool), "cpu": cpu, "ram": to_q(ram, q), "prio": prio, "ops": [first[p] + k for p, k in refs]}
            steps.append(["assign", a, o.get("err"), o["st"], o["cnt"]])
        elif st[0] == "suspend":
            steps.append(["suspend", layer_e.mpool(st[1]), st[2]])
        else:
            steps.append(["tick", o.get("err"), o.get("state"), o.get("res", [])])
    return {"cfg": {"tps": c["tps"], "q": q, "g": g, "multi": c["multi"], "over": c["over"]},
            "ops": {"pid": pid, "parents": parents}, "init": init_world(sc), "steps": steps}


def lean_check(drv, prop, sc, obs):
    r = drv.send(f"check {prop} " + json.dumps(etrace_json(sc, obs), separators=(",", ":")))
    if not r.get("ok"):
        raise (TieBroken if r.get("err") == "parse" else RuntimeError)(f"driver could not evaluate check_{prop}: {r}")
    return r["fails"]


def clause_names(fails):
    return sorted({f.split("@")[0] for f in fails})


def shrink(sc, still_bad, max_rounds=6, deadline=None):
    """greedy delta debugging on steps (from the end), then on pipelines that no step refers to"""
    sc = copy.deepcopy(sc)
    for _ in range(max_rounds):
        changed = False
        # cut the tail
        lo, hi = 0, len(sc["steps"])
        i = len(sc["steps"]) - 1
        while i >= 0:
            if deadline and time.time() > deadline:
                return sc
            cand = copy.deepcopy(sc)
            del cand["steps"][i]
            if cand["steps"] and still_bad(cand):
                sc = cand
                changed = True
            i -= 1
        if not changed:
            break
    return sc


def impl_fails(prop, drv):
    def f(sc):
        try:
            obs, _ = run_impl(sc)
            return clause_names(lean_check(drv, prop, sc, obs))
        except NonLattice:
            return []
    return f


def nontrivial(g):
    return g.stats.get("res_ok", 0) + g.stats.get("res_fail", 0) > 0


CRASH_IS_VIOLATION = {"C09"}


def run_scenarios(ctx, prop, make_scenarios, proj, max_violations=3, want=None):
    """make_scenarios(drv) yields GenE objects (scenario + model observations + model-side statistics)"""
    drv = Driver()
    seen = set()
    agg = {}
    t_end = None
    try:
        for g in make_scenarios(drv):
            sc = g.sc
            ctx.coverage["evaluations"] += 1
            h = short_hash(sc)
            for k, v in g.stats.items():
                agg[k] = agg.get(k, 0) + v
            try:
                iobs, _ = run_impl(sc)
            except NonLattice as e:
                # every amount the unchanged code produces on these configurations is a whole number of quanta (pool sizes and requests are, and the shipped
                # schedulers only add, subtract, double and take whole tenths): an amount off the lattice cannot be followed by the model -- the tie is broken
                ctx.sit("discard_non_lattice")
                if len(ctx.unproved) < 3:
                    ctx.unproved.append({"kind": "correspondence", "component": "executor (layer E): an amount off the model's lattice", "detail": str(e)[:200], "scenario": sc})
                continue
            if h not in seen and nontrivial(g):
                seen.add(h)
                ctx.coverage["distinct_nontrivial"] += 1
            if len(ctx.coverage["samples"]) < 2:
                ctx.coverage["samples"].append({"cfg": sc["cfg"], "pipes": sc["pipes"][:2], "steps": sc["steps"][:12],
                                                "n_steps": len(sc["steps"]), "model_last": g.obs[-1] if g.obs else None})
            fails = lean_check(drv, prop, sc, iobs)
            if prop == "C09" and not fails and len(ctx.violations) < max_violations:
                extra = containers_without_accepted_assignment(sc, iobs)
                if extra:
                    ctx.violations.append({"what": extra, "clauses": ["one-container-per-accepted-assignment"], "layer": "E", "scenario": sc,
                                           "sig": {"clause": "one-container-per-accepted-assignment"}})
                    continue
            mfails = lean_check(drv, prop, sc, g.obs)
            if mfails:
                ctx.sit("model_trace_fails_checker")
            ctx.coverage["traces_validated_against_impl"] = ctx.coverage.get("traces_validated_against_impl", 0) + 1
            if fails and len(ctx.violations) < max_violations:
                names = clause_names(fails)
                bad = impl_fails(prop, drv)
                small = shrink(sc, lambda c: any(n in bad(c) for n in names), deadline=time.time() + 40)
                sobs, _ = run_impl(small)
                ctx.violations.append({"what": f"check_{prop} fails on the implementation trace: {', '.join(clause_names(lean_check(drv, prop, small, sobs)))}",
                                       "clauses": names, "layer": "E", "scenario": small,
                                       "observed": sobs[-1] if sobs else None,
                                       "sig": {"clause": names[0]}})
                continue
            d = first_divergence(iobs, g.obs, proj)
            crashed = next((k for k, o in enumerate(iobs) if isinstance(o, dict) and not o.get("ok", True) and str(o.get("err", "")).startswith("other:")), None)
            if prop in CRASH_IS_VIOLATION and crashed is not None and crashed < len(g.obs) and g.obs[crashed].get("ok") and len(ctx.violations) < max_violations:
                # the real executor died with an exception that is none of its documented refusals, on a step the model carries out: for these
                # properties ("every container ends in exactly one way, its result delivered in that tick") that is the violation itself
                def crashes(c):
                    try:
                        return any(isinstance(o, dict) and str(o.get("err", "")).startswith("other:") for o in run_impl(c)[0])
                    except NonLattice:
                        return False
                small = shrink(sc, crashes, deadline=time.time() + 40)
                sobs, _ = run_impl(small)
                err = next((o["err"] for o in sobs if isinstance(o, dict) and str(o.get("err", "")).startswith("other:")), iobs[crashed]["err"])
                ctx.violations.append({"what": f"the executor raised an undocumented exception in the middle of a step the model carries out: {err}",
                                       "layer": "E", "scenario": small, "observed": sobs[-1] if sobs else None, "sig": {"clause": "implementation-raised"}})
                continue
            if d and not fails and len(ctx.unproved) < 3:
                i, a, b = d
                ctx.unproved.append({"kind": "correspondence", "component": "executor (layer E)", "projection": prop,
                                     "step_index": i, "step": sc["steps"][i] if i < len(sc["steps"]) else None,
                                     "impl": a, "model": b, "scenario": sc})
    finally:
        drv.close()
    ctx.coverage["situations"].update(agg)
    ctx.coverage["rule"] = ("scenarios are generated from VERIF_SEED by directed generators steered by the model's state; "
                            "a scenario is non-trivial if at least one container produced a result in it; distinct = distinct scenario hash")


def containers_without_accepted_assignment(sc, iobs):
    """C09, counted on the implementation's own trace: a tick starts at most one new container per assignment handed to *it* -- whatever a refused or
    earlier command may have left behind inside the executor (a refused tick may have started the containers of the pools served before the refusing one;
    the model does the same)"""
    seen, pending = set(), 0
    for k, (st, o) in enumerate(zip(sc["steps"], iobs)):
        if not isinstance(o, dict):
            continue
        if st[0] == "assign":
            pending += 1 if o.get("ok") else 0
        elif st[0] == "tick":
            if o.get("state") is None:
                break
            cur = set()
            for pl in o["state"].get("pools", []):
                cur |= {c[0] for c in pl.get("A", [])} | {c[0] for c in pl.get("S", [])} | set(pl.get("D", []))
            cur |= {r[0] for r in o.get("res", [])}
            new = cur - seen
            seen |= cur
            allowed = pending          # also in a refused tick: the pools are served in turn, and those before the refusing one have started their containers
            if len(new) > allowed:
                return (f"step {k}: {len(new)} new container(s) {sorted(new)} appeared in a tick that "
                        f"{'was handed ' + str(pending) + ' assignment(s)' if o.get('ok') else 'was refused (' + str(o.get('err')) + ')'}"
                        f": a container exists that no accepted assignment accounts for")
            pending = 0
    return None


def replay_scenario(ctx, prop, rep, proj):
    sc = rep.get("scenario") or rep.get("theorem_or_tie", {}).get("scenario")
    drv = Driver()
    try:
        iobs, im = run_impl(sc)
        fails = lean_check(drv, prop, sc, iobs)
        ctx.coverage["evaluations"] += 1
        ctx.coverage["samples"].append({"replayed": sc["cfg"], "fails": fails})
        if fails:
            ctx.violations.append({"what": f"check_{prop} fails on the implementation trace: {', '.join(clause_names(fails))}",
                                   "clauses": clause_names(fails), "layer": "E", "scenario": sc, "sig": {"clause": clause_names(fails)[0]}})
            return
        if prop == "C09":
            extra = containers_without_accepted_assignment(sc, iobs)
            if extra:
                ctx.violations.append({"what": extra, "clauses": ["one-container-per-accepted-assignment"], "layer": "E", "scenario": sc,
                                       "sig": {"clause": "one-container-per-accepted-assignment"}})
                return
        crash = next((o["err"] for o in iobs if isinstance(o, dict) and str(o.get("err", "")).startswith("other:")), None)
        if prop in CRASH_IS_VIOLATION and crash:
            ctx.violations.append({"what": f"the executor raised an undocumented exception: {crash}", "layer": "E", "scenario": sc, "sig": {"clause": "implementation-raised"}})
            return
        _, mobs = run_model(sc, im.order, drv)
        d = first_divergence(iobs, mobs, proj)
        if d:
            i, a, b = d
            ctx.unproved.append({"kind": "correspondence", "component": "executor (layer E)", "step_index": i, "impl": a, "model": b, "scenario": sc})
    finally:
        drv.close()
