#!/usr/bin/env python3
"""(re)generate MANIFEST.json from the table below; run after adding or changing a check"""
import json, os

VERIF = os.path.dirname(os.path.dirname(os.path.abspath(__file__)))
props = [json.loads(l) for l in open(os.path.join(VERIF, "properties.jsonl"))]

TB = ("Trusted: Lean 4.33 kernel; axioms propext, Classical.choice, Quot.sound only (audited with #print axioms on every run; no sorry, "
      "no native_decide, no axioms of our own); harness/extract.py (tables regenerated from the source, fail-closed); the sampling-based "
      "correspondence harness (generators, canonicalisation, float->quantum conversion on the binary-exact lattice); the Lean compiler for the "
      "driver executable. Modelled, not verified: IEEE-754 arithmetic of the Python code (exact integer model; equality demanded on the lattice).")

CLAIMS = {
    "C01": ("Lean theorems: running/completed => parents completed, as an invariant of every world reachable under arbitrary (also inadmissible) "
            "commands (effect discipline `Steps` lifted through the container generator, pool tick, executor and Assignment construction); "
            "a start with an unfinished parent is refused; the DAG iterator returns a permutation with parents first for every DAG (unbounded). "
            "Tie: every DAG on <= 5 (quick) / 6 (thorough) nodes against the real iterator, lock-step of the real Executor against the model on "
            "directed command sequences, and `check_C01` (defined in Lean) evaluated on every implementation trace.",
            "Props/C01.lean; model of runtime_status.py, container.py, resource_pool.py, executor.py, assignment.py, dag.py"),
    "C02": ("Lean theorems: the transition table extracted from the source is the documented one (decide); accepted changes are table arrows, "
            "invalid ones are refused; counts = histogram of states and completed-is-final as invariants over arbitrary command sequences; "
            "an Assignment containing a completed operator is refused; ONE LIVE CONTAINER PER OPERATOR as an invariant of the closed loop: if the operators in the unfinished suffixes of all "
            "running and suspending containers of all pools are pairwise distinct and each ASSIGNED/RUNNING/SUSPENDING, then after any chain of accepted Assignment constructions and the "
            "executor tick that receives them (all six phases of every pool: suspensions, starts, write-outs, container ticks, both OOM-killer steps, collection) the same holds "
            "(`tick_keeps_one_live_container_per_operator`, footprint discipline in Proofs/Live.lean; holds in a fresh world). Tie: exhaustive request histories on all DAGs of <= 3 operators to depth 3/4 "
            "against the real PipelineRuntimeStatus, lock-step executor scenarios; `check_C02` (moves follow the table, counts, disjoint live "
            "containers) on every implementation trace.",
            "Props/C02.lean, Proofs/Live.lean, Proofs/Built.lean; the live-container theorem assumes the tick succeeds and every operator has at least one segment"),
    "C03": ("Lean theorems on the pool model (conservation of CPU and RAM over active + suspending containers, non-negativity, whole-batch rejection; an allocation is returned in the tick the container completes: in every ready world a container that holds an allocation as a running container has an operator left - `running_containers_have_work_left`, the clause `returned-when-finished` of the checker; and for full simulations: conservation on every tick of every run of priority (with pre-emption), priority-pool and overbook from every fresh world - corollaries of the whole-run invariants); "
            "tie: lock-step of the real Executor on directed sequences (overselling batches, suspensions run to their end, kills); `check_C03` on every "
            "implementation trace.", "Props/C03.lean"),
    "C04": ("Lean theorems on the pool model (after the OOM killer every running container is within its allocation; reported usage = sum over running "
            "containers; kills justified); tie: lock-step incl. the snapshot the killer sees (observer installed by the harness); `check_C04` on every "
            "implementation trace.", "Props/C04.lean"),
    "C05": ("The documented time/memory model as a Lean specification (`specRun`, independent of the tick generator) and theorems about it and the laws; "
            "tie: thousands of single-container runs of the real code against the specification, exact on the binary-exact lattice, either-side only at "
            "flagged float boundaries on decimal tick rates; the (law, cpus 1..128) grid of the scaling functions.", "Props/C05.lean"),
    "C09": ("Lean theorems on the executor model (unknown pool rejected; created = outcomes + live in every reachable world; one result per finished container; success iff no error; OVER A WHOLE EXECUTOR TICK with any pools, kills and write-outs: every result is that of a container whose operators are COMPLETED up to where it got, a success exactly when nothing is left, a failure leaves a non-empty rest that is all FAILED - `result_is_completed_prefix_then_failed`; container numbers are never re-used - `container_numbers_never_reused`); tie: lock-step with several pools, simultaneous outcomes, out-of-range pool numbers; `check_C09` "
            "(accounting, one result per container, success iff all completed, failure shape, unknown pool rejected) on every implementation trace.",
            "Props/C09.lean"),
    "C10": ("Lean theorems on the container/pool model (boundary flag, duration max(1, ram/g), work returned intact; over a whole executor tick the containers whose write-out ends are in a suspended list, not ended, their whole unfinished suffix PENDING - `write_out_end_returns_the_unfinished_operators`); tie: suspension requested at "
            "every moment of container lives incl. write-outs of 1, 2, many ticks run to their end; `check_C10` on every implementation trace (incl. the pool balance where write-outs end); "
            "the duration clause is also measured on the real executor on decimal tick rates against exact arithmetic: the unchanged code is one tick short when ram/20*tps is an exact "
            "integer and the float quotient falls below it (open known finding D13; the exact computation changes tests/regression).",
            "Props/C10.lean"),
    "C11": ("Lean theorems: stable descending sort by usage^2/allocation, victims are a prefix, kills happen only while usage exceeds capacity; tie: "
            "overcommitted pools with several growing containers; `check_C11` evaluated on the killer's own snapshot of every implementation tick.",
            "Props/C11.lean"),
}

READY = ["C01", "C02", "C03", "C04", "C05", "C06", "C07", "C08", "C09", "C10", "C11", "C12", "C13", "C14", "C15", "C16", "C17", "C18", "C19", "C20"]   # properties whose Props file holds real theorems
CLAIMS.update({
    "C13": ("Lean theorems over exact rationals: the delivery tick ceil(a*tps) is never before the arrival and is the first such tick; it is monotone in the arrival; "
            "with rows in arrival order each tick returns exactly the pipelines whose delivery tick it is, in file order, exactly once, none after the end; the gentrace "
            "round trip k/tps -> k. Tie without tolerance: exhaustive on-grid arrivals (k < 3000/10000) for 10/100/1000 ticks/s and sampled k to 3e6 for 13 tick rates, written "
            "as plain decimals and as gentrace writes them, off-grid decimals, random multi-pipeline replays, gentrace round trips through the CLI. The unchanged code violates "
            "the property by float rounding (known findings D5a/D5b, not repairable without changing tests/regression); any other discrepancy is a violation.",
            "Props/C13.lean; oracle = the decimal written in the file (DESIGN 7/C13)"),
    "C14": ("Lean theorems on a row-level model of csv_io.py: reading what was written yields the same pipelines for every list of well-formed pipelines (any DAG, explicit 0 vs unset "
            "memory), read->write reproduces the rows, each of the six format breaches is refused. Tie: random workloads through the real CSVWorkloadWriter/Reader (structure and rows, "
            "also against the model), malformed files.", "Props/C14.lean; cell text (repr of floats, csv quoting) is modelled as opaque values"),
    "C15": ("Lean theorems for every draw stream: exactly num_pipelines per event with consecutive fresh ids, query => one operator, otherwise a chain of max(1, floor(draw)) operators "
            "whose first is the I/O-heavy prototype, gap = floor(draw) or the mean, no event while waiting; the prototype table extracted from the source is the documented one; the "
            "if-chain equals a threshold count and is monotone (coupling form of the cpu_io_ratio clause). Tie: every draw of the real generator recorded by a proxy rng and replayed "
            "into the model; structure clauses on every emitted pipeline; paired-seed coupling test. PARTIAL: averages and class frequencies are statements about numpy, sampled "
            "(5 sigma) and labelled as tests.", "Props/C15.lean"),
    "C20": ("Lean theorems over exact rationals: snap never moves up, by less than a tick, fixes the grid, is idempotent; jitter's output is a sorted permutation with each arrival moved "
            "by its draw in [0, delta]; sample seeds start+i are distinct. Tie: files through `eudoxia tools snap|jitter` (CLI) compared in exact decimal arithmetic; seed wiring of "
            "sensitivity-sample captured with a stub generator.", "Props/C20.lean; where 1/tps has no finite decimal expansion the written value is compared as the correctly rounded float"),
})
CLAIMS.update({
    "C06": ("Lean theorems: the counters the main loop accumulates tick by tick equal an independent recount of the run's history (induction over ticks); arrivals and completions "
            "per priority partition the totals; mean and p99 (numpy's linear rule, exact rationals) are over exactly the completed latencies; empty classes / empty runs give "
            "count 0 and undefined latency; THE TICK IN WHICH THE LAST OPERATOR COMPLETES IS A SWEPT TICK (`completion_comes_with_a_success_result_in_the_same_tick`, `pipeline_is_counted_in_the_tick_its_last_operator_completes`): an executor tick loses no container (every container running or being written out when it begins and every one it starts is found again at its end, in a pool list or among the results, under its number and with its operator list), so when all operators of a pipeline are COMPLETED after a tick and one was not before, the tick returns a successful result for that pipeline and the completion sweep - which only looks when there are results - records it in that very tick (hypothesis: each container holds operators of one pipeline, an invariant handed on by the tick and part of the priority loop invariant). Tie: run_simulator with recording workload, scheduler and executor wrappers; the history recounted by the Lean model is compared "
            "with the returned SimulatorStats and with every pipeline's recorded finish tick (= tick of its last operator's completion); uncontended pipelines finish in exactly "
            "the ticks their operators need.", "Props/C06.lean, Proofs/Cover.lean, Proofs/Complete.lean, Model/Sweep.lean: the completion bookkeeping of the main loop is modelled (`sweep`) with theorems: it never records a pipeline twice (consistency invariant kept by arrivals and sweeps), "
            "records exactly the outstanding pipelines all of whose operators are COMPLETED in a tick with results, and completion is final so nothing is recorded later than the next sweep; tie: the model's finish ticks and "
            "latencies for the run's history against the simulator's own records"),
    "C07": ("PARTIAL. Lean theorems are thin and by construction (the model is a function of its inputs, the generator's parameters contain no policy setting, the model has no identifier "
            "values). The decisive part is the tie: each configuration is executed in a fresh interpreter, under another PYTHONHASHSEED, after other simulations, and in the long-lived "
            "harness process; canonicalised event logs and statistics must be identical; workload independence of policy and seed sensitivity compared on arrival logs.",
            "Props/C07.lean; cross-process determinism is CPython runtime behaviour the model cannot exhibit"),
    "C19": ("PARTIAL. Lean theorems on the bridge's bookkeeping: a call is made iff something arrived or finished or the poll interval passed; new and known pipelines are disjoint; "
            "every call lists every known pipeline with its current completion flag, a pipeline stays known until the call that reports it complete and arrivals become known "
            "(so a completed pipeline IS reported, once); a pipeline reported complete is dropped and never reported again; EXACTLY ONCE OVER A WHOLE RUN (`completed_pipeline_is_reported_complete_exactly_once`): if a known pipeline is incomplete during some rounds and complete from a round on in which the executor also returned a result (always the case when a pipeline completes: C06), then no earlier call lists it as complete, that round makes a call listing it as complete, and no later call mentions it; reply decoding is the identity on registered operators. Tie: loop-back HTTP server recording every "
            "request body, compared with the executor's real state and with the Lean bookkeeping model; the peer's decisions replayed in-process give identical statistics.",
            "Props/C19.lean; sockets/JSON/requests exercised not modelled; the Go reference cannot be built here"),
})
CLAIMS.update({
    "C05": ("Lean: the documented time/memory model as a specification (`ctrDemands`/`specRun`, written from the documentation, independent of the tick generator) and theorems: "
            "(1) the container the pool creates for an assignment has exactly the documented list of per-tick memory demands still to come (tick counts from the documented formulas "
            "at the assigned CPU count, every operator at least one tick); (2) `Container.tick` consumes exactly one demand per tick: above the allocation the container stops holding "
            "that demand (OOM at the first excess, not before), otherwise it holds the demand, the operator index advances exactly at an operator's last demand and the container is "
            "complete exactly when none is left; (3) by induction over ticks, after n fitting ticks exactly the first n demands are consumed, so completion happens at the summed tick "
            "count, neither earlier nor later; (4) the specification's summary record is what the container does: memory held after each tick, the end tick, the verdict (success / "
            "out-of-memory stop) and the number of operators completed at the end (`specification_summary_is_what_the_container_does`, "
            "`specification_completed_operators_is_the_containers_operator_index`), and after every tick the operator index is the operator of the next documented demand; "
            "plus the segment formulas, law divisors and their monotonicity, CPU time antitone in CPUs, flat beyond each law's bound, memory profile. "
            "Tie: thousands of single-container runs of the real code against the specification, exact on the binary-exact lattice, either-side only at flagged float boundaries on "
            "decimal tick rates; the (law, cpus 1..128) grid of the real scaling functions.", "Props/C05.lean, Proofs/Profile.lean; sqrt/log laws via integer sqrt and an enclosure table"),
    "C08": ("PARTIAL (the whole-run clause is a theorem for every shipped scheduler in every container mode except priority-pool with single-operator containers, where it is false for the shipped code: known finding D11; the theorems start from a world whose pipelines are already registered, and amounts are integers of the quantum lattice). Lean theorems: (1) EXECUTION NEVER GETS STUCK: on consistent containers (head operator RUNNING once started, the rest ASSIGNED, "
            "every parent COMPLETED or earlier in the container) Container.tick / kill / suspend never raise; a whole pool tick and the whole Executor.run_one_tick raise ONLY AT THEIR GATES "
            "(`executor_tick_raises_only_at_the_gates`: from a ready world, after any chain of accepted Assignment constructions in dependency order and with distinct suspension requests, the tick "
            "either succeeds and leaves a ready world or refuses the commands up front - unknown pool, unknown/unsuspendable container, oversold CPU/RAM, wrong operator count - in a well-defined "
            "state), and it succeeds when the gates pass; (2) WHOLE RUNS: the naive scheduler in closed loop with the executor never raises, for every sequence of arrival batches, with "
            "single-operator containers (= the `eudoxia init` starter scheduler) and with multi-operator containers (the default), from any ready world with well-formed pipelines - by induction over "
            "ticks, carrying the ownership/readiness invariants and 'a pipeline with an operator in a container has no operator waiting'; a concrete world (diamond DAG, two pools) meets every "
            "hypothesis (non-vacuity, checked by the kernel); likewise PRIORITY WITH SINGLE-OPERATOR CONTAINERS in closed loop with the executor never raises over whole runs (`priority_single_operator_run_never_raises`: no overcommit, pipelines arriving together distinct; the invariant carries 'queues hold distinct ready operators, one per job, with positive retry sizes' and 'no container is ever suspendable', so the pre-emption machinery provably stays idle in this mode; same concrete world); PRIORITY-POOL WITH MULTI-OPERATOR CONTAINERS never raises over whole runs (`priority_pool_multi_operator_run_never_raises`: neither the executor, nor the Assignment constructor, nor the scheduler's own two assertions; the proof carries through every phase of the executor tick that a failed result's unfinished suffix is non-empty and all FAILED, and that a pool's free CPU is zero exactly when its free RAM is); PRIORITY WITH MULTI-OPERATOR CONTAINERS - the mode in which it pre-empts - never raises over whole runs (`priority_multi_operator_run_never_raises`, no overcommit: the invariant carries the whole suspension life cycle - requested once, of a running suspendable container; written out with the job remembered under a container number that is never re-used; handed back with the unfinished suffix PENDING; re-queued exactly once with exactly that suffix and the old allocation - together with 'each queued job is all the unfinished work of its pipeline'; concrete world checked by the kernel); `executor_tick_with_suspensions_succeeds_when_the_gates_pass`; FROM EVERY FRESH WORLD (`*_runs_from_every_fresh_world`, six theorems): for any configuration, any pools and any registered workload of well-formed pipelines (each lists existing operators once, every operator has a segment and knows its pipeline, the listing is topological; arriving pipelines distinct, non-empty, untouched) and any arrival batches, the run reaches its last tick - these hypotheses are decidable (`checked_hypotheses_are_the_theorems_hypotheses`) and the model driver evaluates them on every workload the closed-loop tie runs; (3) per round of priority / priority-pool: no pool is asked for more CPU or RAM than it has free, assignments are a chain of accepted "
            "constructions (no operator twice, all PENDING/FAILED before), priority's suspensions are accepted by verify_valid_suspend; overbook: C18. NOT proved: priority-pool with single-operator containers (false for the shipped code: known finding D11); priority under memory overcommit; that a real run's initial world meets the hypotheses beyond the concrete examples; overbook's whole-run theorem is in Props/C18; parameter validation and end-of-run aggregation of run_simulator are exercised, "
            "not modelled. Tie: closed-loop lock-step of each real scheduler + real Executor against the model on generated configurations (tiny pools, coarse ticks, zero-tick segments, both container "
            "modes, DAGs, fractional pool sizes), run_simulator end-to-end incl. the `eudoxia init` template and runs shorter than a tick; `check_C08` on every implementation trace.",
            "Props/C08.lean; Proofs/Progress.lean, Live.lean, WorldLive.lean, NaiveSafe.lean, NaiveLoop.lean, NaiveMulti.lean, NaiveExample.lean, PrioBudget.lean, CtrKept.lean, PriorityLoop.lean, PriorityExample.lean, PoolLoop.lean, PoolExample.lean, Dead.lean, DeadSusp.lean, WorldDead.lean, WorldDeadSusp.lean, GatesSusp.lean, Cids.lean, PrioMulti.lean, PrioMultiExample.lean (about 10 000 lines of proof)"),
    "C12": ("Lean theorems, for every world and queue state, per round of the priority scheduler: each queue run consumes a prefix of its FIFO queue and assigns in queue order; a lower "
            "queue is served only if the higher one was drained, and anything left waiting implies every pool is out of free CPU or RAM in the scheduler's accounting (strict priority + work "
            "conservation); the chosen pool is open and has the most free RAM; suspensions only while a query job is still waiting, at most one per waiting query job, only active non-query "
            "containers at an operator boundary; a job remembered under a container found in a suspended list is put back into its queue; OVER WHOLE RUNS (`suspended_work_is_offered_again_whole_in_every_round_of_every_run`): under the loop invariant of priority with multi-operator containers - which every round and tick of every run re-establishes (C08) - every container whose write-out ended in the last tick gets a job holding exactly its unfinished suffix into the waiting queues in the very next round. before its main loop a round only appends to the queues (`queues_only_grow_at_the_end`), so with head-first consumption equal-priority work is served "
            "first come, first served across rounds. WHAT WAITS IN THE QUEUES at every round of every run (`queued_operators_are_ready_and_distinct_single`, `queued_jobs_are_ready_whole_and_distinct`, from the loop invariants of C08): distinct operators, PENDING or FAILED, parents COMPLETED (or earlier in the same job, the job being all the unfinished work of its pipeline, in multi-operator mode) - the link from queue membership to 'ready pending operator'. Tie: closed-loop lock-step incl. preemption scenarios with single-tick suspensions, exact-fit pools; "
            "`check_C12` (order, conservation, preemption rules, re-offer) on every implementation trace.", "Props/C12.lean"),
    "C16": ("Lean theorems: the class invariant of the three queues holds initially and is kept by every round (so at every round of every run); given it, every assignment of query or "
            "interactive work goes to pool 0 and every other one to pool 1, first attempts and retries alike; the scheduler never suspends; a failed container's unfinished operators are "
            "queued together as one job; a retry whose doubled request reaches half of the pool is never assigned; the scheduler's own assertion cannot be tripped by the Assignment "
            "constructor. OVER WHOLE RUNS (`classes_stay_apart_over_whole_runs`): from a world in which every container sits where its class belongs (e.g. a fresh one), every run of scheduler + executor "
            "that reaches its end - and every prefix of it - ends in such a world: at no tick boundary is there a batch container on pool 0, a query/interactive container on pool 1, or a write-out in "
            "progress, retries included (the container property is carried through ticks, kills and collections by a generic 'kept by the executor' lemma); with multi-operator containers the run is moreover proved to reach its end (`run_completes_with_classes_apart`, concrete world `run_completes_in_a_concrete_world`), so the separation statement is not vacuous; and FROM EVERY FRESH WORLD (`classes_stay_apart_from_every_fresh_world`): any configuration with multi-operator containers, any two pools with some CPU and RAM, any registered workload of well-formed pipelines, any arrivals. Tie: closed-loop lock-step on two pools with mixed priorities and OOM retries; `check_C16` on every implementation trace.", "Props/C16.lean"),
    "C17": ("Lean theorems about the naive scheduler's round for every queue and world: at most one container per pool, sized to all free CPU and RAM of that pool; pools with nothing free are "
            "skipped; FIRST COME FIRST SERVED: each pool's container goes to the first pipeline of the queue that is neither finished nor failed and has something ready, the pipelines served in a round are a subsequence of (queue ++ arrivals) in that order, the part not reached stays in place ahead of the ones scanned and kept (`first_eligible_pipeline_is_served`, `pipelines_are_served_in_queue_order`, `round_is_first_come_first_served`); work handed out belongs to a pipeline without failed operators and (single-operator mode) is one ready operator; no suspensions; "
            "in multi-operator mode everything put into one container is in dependency order; and the closed loop naive + executor never raises over whole runs in either mode (C08 theorems). "
            "Tie: closed-loop lock-step; `check_C17` on every implementation trace.", "Props/C17.lean"),
    "C18": ("Lean theorems about the overbook scheduler's round, for every queue and world: every container gets exactly one operator, one CPU and a memory limit equal to its pool's "
            "whole RAM, on a pool that still had a free CPU in the scheduler's snapshot (the snapshot never goes negative: CPU-bound); the operator's pipeline has fewer than three failed "
            "containers; operators are left in the queue only when no pool has a free CPU; never suspends; and the CLOSED LOOP overbook + executor (overcommit on, either container mode) never raises over whole runs, for every sequence of arrival batches (`overbook_run_never_raises`, queue invariant + executor gate theorems; the invariant - one operator per container, no write-out in progress - holds again in the world the run ends in, hence at every tick boundary; a concrete world meets the hypotheses; `overbook_runs_from_every_fresh_world`: any configuration with overcommit on, any pools with some RAM, any registered workload whose pipelines list existing operators once and give each a segment, any arrivals). Tie: closed-loop lock-step with overcommit and OOM kills; `check_C18` on every implementation trace.", "Props/C18.lean"),
})
CLAIMS = {k: v for k, v in CLAIMS.items() if k in READY}

checks = []
for pid, (text, ref) in CLAIMS.items():
    checks.append({
        "property_id": pid,
        "quick_cmd": f"bin/check {pid} quick",
        "thorough_cmd": f"bin/check {pid} thorough",
        "evidence_file": f"evidence/{pid}.json",
        "replay_cmd_template": f"bin/check {pid} --replay {{path}}",
        "engine": "lean-model",
        "level_claimed": {"category": "proof", "text": text, "design_ref": f"DESIGN.md section 7 ({pid}); {ref}"},
        "level_note": TB,
        "technique": "Lean 4 theorems about an executable model + checked correspondence (lock-step differential run of the compiled model against the code, Lean-defined checker evaluated on implementation traces)",
    })

na = [{"property_id": p["id"], "reason": "check not built yet (work in progress; will be claimed when its model, theorems and tie exist)"}
      for p in props if p["id"] not in CLAIMS]

m = {
    "version": 1,
    "setup_cmd": "bin/setup",
    "hooks": {"guard": "BAUPLANLABS_EUDOXIA_VERIF",
              "enable": "not needed: the checks read attributes that are already reachable and install their observers from the harness; no hook commits in the source",
              "baseline_off_cmd": "cd /repo && /venv/bin/python -m pytest -ra -q -p no:cacheprovider --timeout=900 --continue-on-collection-errors",
              "source_commits": [], "add_only": True},
    "engines": [{"name": "lean-model", "path": "lean/", "serves_properties": [p["id"] for p in props],
                 "kind_free_text": "Lean 4 model + theorems (lake build re-checks every proof), compiled driver, Python correspondence harness"}],
    "checks": checks,
    "notes": "Every check: extract tables from /repo -> lake build -> axiom audit -> correspondence -> Lean checker on implementation traces. "
             "Exit 0 held / 1 VIOLATION / 2 infrastructure. Fix commits in /repo: see known_findings.json.",
    "not_applicable": na,
}
json.dump(m, open(os.path.join(VERIF, "MANIFEST.json"), "w"), indent=1)
print("MANIFEST.json:", len(checks), "checks,", len(na), "not claimed")
