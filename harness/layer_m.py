"""Layer M: the real `run_simulator` with a recording workload and a recording scheduler wrapper."""
import io, logging, os, sys
from fractions import Fraction as F
from common import REPO

logging.disable(logging.CRITICAL)
if REPO not in sys.path:
    sys.path.insert(0, REPO)

_wrapped = {}


class Recorder:
    def __init__(self):
        self.ticks = []          # per scheduler call: dict(results, pipelines, suspensions, assignments)
        self.arrivals = []       # per workload call: list of pipelines
        self.pipelines = []      # every pipeline ever emitted, in order
        self.exec = []           # per executor tick: dict(asg, sus, results, done) -- done = pipelines all of whose operators are COMPLETED
        self.done = set()


def install_executor_recorder():
    from eudoxia.executor.executor import Executor
    from eudoxia.workload import OperatorState
    if getattr(Executor, "_verif_rec", False):
        return
    orig = Executor.run_one_tick

    def run_one_tick(self, suspensions, assignments):
        res = orig(self, suspensions, assignments)
        newly = []
        for p in CURRENT.pipelines:
            if id(p) not in CURRENT.done and all(st == OperatorState.COMPLETED for st in p.runtime_status().operator_states.values()):
                CURRENT.done.add(id(p))
                newly.append(p)
        complete = [k for k, p in enumerate(CURRENT.pipelines)
                    if all(st == OperatorState.COMPLETED for st in p.runtime_status().operator_states.values())]
        CURRENT.exec.append({"asg": list(assignments), "sus": list(suspensions), "results": list(res), "done": newly, "complete": complete})
        return res

    Executor.run_one_tick = run_one_tick
    Executor._verif_rec = True


CURRENT = Recorder()


FLAG_RESUME = False     # when set, the recording scheduler marks every other assignment `is_resume=True` (as an external scheduler may): a flag without effect on counting


def recording_scheduler(algo):
    """register (once) a scheduler key that forwards to `algo` and records what goes in and out"""
    from eudoxia.scheduler.decorators import register_scheduler, register_scheduler_init, INIT_ALGOS, SCHEDULING_ALGOS
    key = f"verif_rec_{algo}"
    if key in _wrapped:
        return key
    inner_init, inner = INIT_ALGOS[algo], SCHEDULING_ALGOS[algo]

    @register_scheduler_init(key=key)
    def init(s):
        inner_init(s)

    @register_scheduler(key=key)
    def sched(s, results, pipelines):
        sus, asg = inner(s, results, pipelines)
        if FLAG_RESUME:
            for k, a in enumerate(asg):
                if k % 2 == 0:
                    a.is_resume = True
        CURRENT.ticks.append({"results": list(results), "pipelines": list(pipelines), "sus": list(sus), "asg": list(asg)})
        return sus, asg

    _wrapped[key] = True
    return key


def recording_workload(inner):
    from eudoxia.workload import Workload

    class Rec(Workload):
        def run_one_tick(self):
            ps = inner.run_one_tick()
            CURRENT.arrivals.append(list(ps))
            CURRENT.pipelines.extend(ps)
            return ps
    return Rec()


def run_recorded(params, algo, workload=None):
    """returns (stats, recorder)"""
    global CURRENT
    from eudoxia.simulator import run_simulator, parse_args_with_defaults
    from eudoxia.workload import WorkloadGenerator
    CURRENT = Recorder()
    install_executor_recorder()
    p = dict(params)
    p["scheduler_algo"] = recording_scheduler(algo)
    full = parse_args_with_defaults(p)
    inner = workload if workload is not None else WorkloadGenerator(**full)
    stats = run_simulator(p, workload=recording_workload(inner))
    return stats, CURRENT


def history(rec):
    """per-tick events [arrival priorities, #assignments, #suspensions, [(ok, ticks run)], [(priority, latency ticks)]],
    reconstructed from what went into and came out of the scheduler and the executor -- not from the simulator's own counters"""
    n = len(rec.arrivals)
    arrival_tick, asg_tick = {}, {}
    for t, ps in enumerate(rec.arrivals):
        for p in ps:
            arrival_tick[id(p)] = t
    ev = []
    for t in range(n):
        ex = rec.exec[t]
        for a in ex["asg"]:
            asg_tick[id(a.ops)] = t
        results = [[int(not r.failed()), t - asg_tick[id(r.ops)] + 1] for r in ex["results"]]
        fin = [[p.priority.value, t - arrival_tick[id(p)]] for p in ex["done"]]
        call = rec.ticks[t]
        ev.append([[p.priority.value for p in rec.arrivals[t]], len(call["asg"]), len(call["sus"]), results, fin])
    return ev
