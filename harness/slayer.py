"""Generic runner for the scheduler-level properties (layer S)."""
import copy, json, time
from common import TieBroken, Driver, short_hash, known_match
from layer_e import quantum, NonLattice
from layer_s import run_impl_s, run_model_s, first_divergence_s, FULL_S
from elayer import init_world, clause_names


def strace_json(sc, obs):
    c = sc["cfg"]
    q, g = quantum(c["tps"])
    pid, parents, n = [], [], 0
    for i, p in enumerate(sc["pipes"]):
        for o in p["ops"]:
            pid.append(i)
            parents.append([n + x for x in o["parents"]])
        n += len(p["ops"])
    rounds = []
    for new, o in zip(sc["arrivals"], obs):
        r = {"newP": new, "err": o.get("err"), "phase": o.get("phase", "")}
        for k in ("dec", "afterSched", "sched", "state", "res", "st"):
            if k in o:
                r[k] = o[k]
        rounds.append(r)
    return {"cfg": {"tps": c["tps"], "q": q, "g": g, "multi": c["multi"], "over": c["over"]}, "algo": sc["algo"],
            "ops": {"pid": pid, "parents": parents}, "prios": [p["prio"] for p in sc["pipes"]], "init": init_world(sc), "rounds": rounds}


def fractional_cpus(obs):
    """assignments whose CPU amount is not a whole number.  On pools with whole CPUs every shipped scheduler hands out whole CPUs (all free ones, a tenth of the
    pool rounded down, twice an earlier amount, one): a fractional amount is a decision no sizing rule of any of them produces, and the Lean checkers (amounts
    are naturals) cannot even read it"""
    out = []
    for k, o in enumerate(obs):
        for a in (o.get("dec") or {}).get("asgs", []):
            if isinstance(a[1], float) and not float(a[1]).is_integer():
                out.append((k, a))
    return out


def whole(x):
    """canonical numbers: 4.0 CPUs are 4 CPUs"""
    if isinstance(x, float) and x.is_integer():
        return int(x)
    if isinstance(x, list):
        return [whole(y) for y in x]
    if isinstance(x, dict):
        return {k: whole(v) for k, v in x.items()}
    return x


def lean_scheck(drv, prop, sc, obs):
    obs = whole(obs)
    fr = fractional_cpus(obs)
    if fr:
        return [f"whole-cpus@round {fr[0][0]}: a container of {fr[0][1][1]} CPUs on pool {fr[0][1][0]}"]
    r = drv.send(f"scheck {prop} " + json.dumps(strace_json(sc, obs), separators=(",", ":")))
    if not r.get("ok"):
        raise (TieBroken if r.get("err") == "parse" else RuntimeError)(f"driver could not evaluate check_{prop}: {r}")
    return r["fails"]


def shrink_s(sc, still_bad, deadline):
    """drop trailing rounds, then whole pipelines (re-indexing the arrivals)"""
    sc = copy.deepcopy(sc)
    while len(sc["arrivals"]) > 1 and time.time() < deadline:
        cand = copy.deepcopy(sc)
        cand["arrivals"] = cand["arrivals"][:-1]
        if still_bad(cand):
            sc = cand
        else:
            break
    i = len(sc["pipes"]) - 1
    while i >= 0 and time.time() < deadline and len(sc["pipes"]) > 1:
        cand = copy.deepcopy(sc)
        del cand["pipes"][i]
        cand["arrivals"] = [[p if p < i else p - 1 for p in a if p != i] for a in cand["arrivals"]]
        if still_bad(cand):
            sc = cand
        i -= 1
    return sc


def run_scenarios_s(ctx, prop, scenarios, proj=FULL_S, max_violations=3, classify=None):
    """scenarios: iterable of scenario dicts"""
    drv = Driver()
    seen = set()
    try:
        for sc in scenarios:
            ctx.coverage["evaluations"] += 1
            try:
                iobs, im = run_impl_s(sc)
            except NonLattice as e:
                # every amount the unchanged code produces on these configurations is a whole number of quanta (pool sizes and requests are, and the shipped
                # schedulers only add, subtract, double and take whole tenths): an amount off the lattice cannot be followed by the model -- the tie is broken
                ctx.sit("discard_non_lattice")
                if len(ctx.unproved) < 3:
                    ctx.unproved.append({"kind": "correspondence", "component": "scheduler + executor (layer S): an amount off the model's lattice", "detail": str(e)[:200], "scenario": sc})
                continue
            mobs = run_model_s(sc, im.order, drv)
            hyp = getattr(drv, "last_hyp", None) or {}
            bad_hyp = [k for k in ("wfp", "segs", "pid", "topo", "future") if hyp.get(k) is not True]
            ctx.sit("theorem_hypotheses_met" if not bad_hyp else "theorem_hypotheses_not_met_" + "_".join(bad_hyp))
            nasg = sum(len(o.get("dec", {}).get("asgs", [])) for o in iobs)
            nsus = sum(len(o.get("dec", {}).get("sus", [])) for o in iobs)
            nfail = sum(1 for o in iobs for r in o.get("res", []) if not r[1])
            nok = sum(1 for o in iobs for r in o.get("res", []) if r[1])
            ctx.sit(sc["algo"] + "_runs")
            ctx.sit("assignments", nasg)
            ctx.sit("suspensions", nsus)
            ctx.sit("failed_containers", nfail)
            ctx.sit("successful_containers", nok)
            if not iobs[-1]["ok"]:
                ctx.sit("run_ended_by_" + iobs[-1].get("phase", "") + "_" + iobs[-1]["err"])
            h = short_hash(sc)
            if h not in seen and nok + nfail > 0:
                seen.add(h)
                ctx.coverage["distinct_nontrivial"] += 1
            if len(ctx.coverage["samples"]) < 2:
                ctx.coverage["samples"].append({"algo": sc["algo"], "cfg": sc["cfg"], "pipes": sc["pipes"][:1], "arrivals": sc["arrivals"][:10],
                                                "first_decisions": [o.get("dec") for o in iobs[:4]]})
            fails = lean_scheck(drv, prop, sc, iobs)
            if lean_scheck(drv, prop, sc, mobs):
                ctx.sit("model_trace_fails_checker")
            ctx.coverage["traces_validated_against_impl"] = ctx.coverage.get("traces_validated_against_impl", 0) + 1
            if fails:
                names = clause_names(fails)
                sig0 = {"clause": names[0], "algo": sc["algo"], "multi": sc["cfg"]["multi"]}
                if known_match(prop, {"sig": sig0}):
                    ctx.sit("known_finding_hits")
                    if not any(v["sig"] == sig0 for v in ctx.violations):
                        ctx.violations.append({"what": f"check_{prop} fails on the implementation trace ({sc['algo']}): {', '.join(names)}",
                                               "clauses": names, "layer": "S", "scenario": sc, "sig": sig0})
                    continue
            if fails and sum(1 for v in ctx.violations if not known_match(prop, v)) < max_violations:

                def bad(c):
                    try:
                        o, _ = run_impl_s(c)
                        return any(n in clause_names(lean_scheck(drv, prop, c, o)) for n in names)
                    except NonLattice:
                        return False
                small = shrink_s(sc, bad, time.time() + 40)
                sobs, _ = run_impl_s(small)
                sfails = clause_names(lean_scheck(drv, prop, small, sobs))
                sig = {"clause": sfails[0] if sfails else names[0], "algo": sc["algo"], "multi": sc["cfg"]["multi"]}
                if classify:
                    sig = classify(sig, small, sobs)
                ctx.violations.append({"what": f"check_{prop} fails on the implementation trace ({sc['algo']}): {', '.join(sfails or names)}",
                                       "clauses": sfails or names, "layer": "S", "scenario": small, "observed": sobs[-1], "sig": sig})
                continue
            d = first_divergence_s(iobs, mobs, proj)
            if d and not fails and len(ctx.unproved) < 3:
                i, a, b = d
                diff = {k: [a.get(k), b.get(k)] for k in a if isinstance(a, dict) and isinstance(b, dict) and a.get(k) != b.get(k)} if isinstance(a, dict) else [a, b]
                ctx.unproved.append({"kind": "correspondence", "component": f"scheduler {sc['algo']} + executor (layer S)", "round": i,
                                     "differs": json.loads(json.dumps(diff))if diff else None, "scenario": sc})
    finally:
        drv.close()
    ctx.coverage["rule"] = ("closed loops of the real Scheduler + Executor on generated workloads (DAG pipelines, bursts, contended and idle pools, "
                            "tick rates 1-16 on the binary-exact lattice), compared round by round with the Lean models; non-trivial = at least one container "
                            "finished; distinct = distinct scenario hash")


def replay_s(ctx, prop, rep, proj=FULL_S):
    sc = rep.get("scenario") or rep.get("theorem_or_tie", {}).get("scenario")
    run_scenarios_s(ctx, prop, [sc], proj)
