#!/venv/bin/python
"""bin/check <Cxx> <quick|thorough> | bin/check <Cxx> --replay <path>

One run = extract from /repo -> lake build (kernel re-checks every proof) -> audit (axioms, forbidden words)
-> correspondence of the model with the code under /repo for the layers the property rests on
-> the Lean-defined statement `check_Cxx` evaluated on every implementation trace -> verdict + evidence.
Exit 0: property held on everything explored.  Exit 1 + `VIOLATION property=<id> replay=<path>`.
Exit 2: infrastructure problem (never a verdict about eudoxia)."""
import importlib, json, os, sys, time, traceback

HERE = os.path.dirname(os.path.abspath(__file__))
sys.path.insert(0, HERE)
import common
from common import VERIF, LEAN, EVID, REPLAYS, sh, write_json, short_hash


class Ctx:
    def __init__(self, prop, tier, seed):
        self.prop, self.tier, self.seed = prop, tier, seed
        self.t0 = time.time()
        self.violations = []      # concrete failing inputs on the implementation (dicts with 'what', 'replay')
        self.unproved = []        # broken proof / correspondence without a failing input (dicts)
        self.known = []           # matched known findings (strings)
        self.coverage = {"evaluations": 0, "distinct_nontrivial": 0, "samples": [], "situations": {}}
        self.assumptions = []
        self.budget_s = float(os.environ.get("VERIF_BUDGET_S", "0")) or None

    def quick(self):
        return self.tier == "quick"

    def elapsed(self):
        return time.time() - self.t0

    def sit(self, k, n=1):
        self.coverage["situations"][k] = self.coverage["situations"].get(k, 0) + n


def load_prop_module(prop):
    return importlib.import_module(f"props.{prop.lower()}")


known_match = common.known_match


def main():
    if len(sys.argv) < 3:
        print(__doc__)
        sys.exit(2)
    prop = sys.argv[1]
    replay = None
    if sys.argv[2] == "--replay":
        replay = sys.argv[3]
        tier = "quick"
    else:
        tier = os.environ.get("VERIF_TIER") or sys.argv[2]
    seed = int(os.environ.get("VERIF_SEED", "0"))
    if replay:
        # a replay re-runs the recorded case; checks whose cases all derive from the seed re-run the recorded seed and tier
        try:
            rep0 = json.load(open(replay))
            seed = int(rep0.get("seed", seed))
            tier = rep0.get("tier", tier)
        except Exception as e:
            print("CHECK-ERROR cannot read replay file:", e)
            sys.exit(2)
    ctx = Ctx(prop, tier, seed)
    os.makedirs(EVID, exist_ok=True)
    os.makedirs(REPLAYS, exist_ok=True)

    # 1+2. extract + build
    b = common.build()
    proof_broken = None
    driver_ok = True
    if not b.ok:
        if b.stage == "extract":
            proof_broken = {"kind": "extract", "detail": b.log[-1500:]}
            # the previous Extracted.lean stays in place; the driver may still be usable
            rc, out = sh(["lake", "build", "driver"], cwd=LEAN)
            driver_ok = rc == 0
        else:
            rc, out = sh(["lake", "build", f"EudoxiaModel.Props.{prop}"], cwd=LEAN)
            if rc != 0:
                import re
                errs = re.findall(r"error: (\S+\.lean:\d+:\d+): (.*)", out)
                proof_broken = {"kind": "proof", "files": sorted({e[0] for e in errs}), "detail": out[-1500:]}
            rc2, out2 = sh(["lake", "build", "driver"], cwd=LEAN)
            driver_ok = rc2 == 0
            if not driver_ok and proof_broken is None:
                proof_broken = {"kind": "model", "detail": out2[-1500:]}
    # 3. audit
    axioms = {}
    if proof_broken is None:
        ok, axioms, problems = common.audit(prop)
        if not ok:
            print("AUDIT-FAILED", problems)
            sys.exit(2)
    thms = common.prop_theorems(prop)
    leanchecker = None
    if proof_broken is None and tier == "thorough" and not replay:
        # independent re-check of the compiled proofs of this property (and everything they import from this project) by the toolchain's leanchecker
        rc, out = sh(["lake", "env", "leanchecker", f"EudoxiaModel.Props.{prop}"], cwd=LEAN)
        leanchecker = "ok" if rc == 0 else out[-600:]
        if rc != 0:
            proof_broken = {"kind": "leanchecker", "detail": out[-1500:]}

    # 4+5. tie and statement on the implementation
    mod = load_prop_module(prop)
    try:
        if not driver_ok:
            raise RuntimeError("model driver does not build")
        if replay:
            mod.replay(ctx, json.load(open(replay)))
        else:
            # the corpus of past failures (inputs on which the unrepaired code broke the property, and past false alarms) runs first
            cdir = os.path.join(VERIF, "corpus", prop)
            for f in sorted(os.listdir(cdir)) if os.path.isdir(cdir) else []:
                try:
                    mod.replay(ctx, json.load(open(os.path.join(cdir, f))))
                    ctx.sit("corpus_cases_replayed")
                except Exception as e:
                    ctx.assumptions.append(f"corpus case {f} could not be replayed: {type(e).__name__}: {e}")
            mod.run(ctx)
    except Exception as e:
        # an exception that comes out of the code under test (innermost frame in /repo) on an input the harness generated as valid is a failure of the
        # implementation, not of the infrastructure: report it with the input the generator was working on (the seed reproduces it)
        tb = traceback.extract_tb(e.__traceback__)
        inner = tb[-1] if tb else None
        from_repo = inner is not None and os.path.realpath(inner.filename).startswith(os.path.realpath(common.REPO) + os.sep)
        observers = ("layer_e.py", "layer_s.py", "layer_m.py", "det_run.py")
        in_observer = inner is not None and os.path.basename(inner.filename) in observers
        if isinstance(e, common.TieBroken):
            ctx.unproved.append({"kind": "correspondence", "component": "implementation trace not representable in the model's vocabulary", "detail": str(e)[:400]})
        elif in_observer and isinstance(e, (AttributeError, KeyError, IndexError, TypeError, ValueError)) and proof_broken is None:
            # the harness reads the implementation's objects (container fields, scheduler queues, results) to compare them with the model; on the unchanged code
            # these reads never fail.  If one does, the code no longer has the shape the correspondence was built on: the tie is broken (not the infrastructure)
            chain = [f"{os.path.basename(fr.filename)}:{fr.lineno} {fr.name}" for fr in tb[-4:]]
            ctx.unproved.append({"kind": "correspondence", "component": "the harness could not observe the implementation (an attribute, key or shape it reads is gone)",
                                 "detail": f"{type(e).__name__}: {str(e)[:200]}", "where": chain})
        elif from_repo:
            chain = [f"{os.path.relpath(fr.filename, common.REPO) if fr.filename.startswith(common.REPO) else os.path.basename(fr.filename)}:{fr.lineno} {fr.name}" for fr in tb[-6:]]
            ctx.violations.append({"what": f"the implementation raised {type(e).__name__}: {str(e)[:200]} on a generated valid input", "layer": "-",
                                   "traceback": chain, "sig": {"clause": "implementation-raised", "exception": type(e).__name__, "where": inner.name}})
        elif proof_broken is None:
            traceback.print_exc()
            print("CHECK-ERROR", e)
            sys.exit(2)
        else:
            ctx.assumptions.append(f"tie not run: {e}")

    # 6. verdict
    out_lines = []
    real = []
    for v in ctx.violations:
        k = known_match(prop, v)
        if k:
            line = f"KNOWN-FINDING: property={prop} {k['what_fails']}"
            if line not in out_lines:
                out_lines.append(line)
            ctx.known.append(k["id"])
        else:
            real.append(v)
    exit_code = 0
    if real:
        v = real[0]
        path = os.path.join(REPLAYS, f"{prop}-{short_hash(v)}.json")
        write_json(path, {"property": prop, "kind": "violation", "seed": seed, "tier": tier, **v,
                          "rerun": f"bin/check {prop} --replay {os.path.relpath(path, VERIF)}"})
        out_lines.append(f"VIOLATION property={prop} replay={os.path.relpath(path, VERIF)}")
        exit_code = 1
    elif proof_broken or ctx.unproved:
        what = proof_broken or ctx.unproved[0]
        path = os.path.join(REPLAYS, f"{prop}-unproved-{short_hash(what)}.json")
        write_json(path, {"property": prop, "kind": "unproved", "seed": seed, "tier": tier,
                          "theorem_or_tie": what, "other_divergences": ctx.unproved[1:4],
                          "note": "the proof obligation or the correspondence no longer checks; the search of the model and the implementation found no input on which the property fails",
                          "rerun": f"bin/check {prop} {tier}"})
        out_lines.append(f"VIOLATION property={prop} replay={os.path.relpath(path, VERIF)} no-failing-input-found")
        exit_code = 1

    # 7. evidence
    cov = ctx.coverage
    cov.update({
        "obligations": len(thms),
        "discharged": len(thms) if proof_broken is None else 0,
        "theorems": {t: axioms.get(t, []) for t in thms},
        "leanchecker": leanchecker if leanchecker is not None else "not run in this tier",
        "checker_cmd": f"cd lean && lake build && lake env lean .lake/audit_{prop}.lean   # #print axioms of every theorem of Props/{prop}.lean",
        "trusted_base": ["Lean 4.33 kernel", "axioms: propext, Classical.choice, Quot.sound (no native_decide, no sorry)",
                         "harness/extract.py (tables regenerated from /repo)", "correspondence harness (sampling-based tie)",
                         "Lean compiler/runtime for the driver executable"],
    })
    if not cov["samples"]:
        cov["samples"] = ["(no case generated)"]
    ev = {"property_id": prop, "tier": tier, "seed": seed, "level": "proof", "coverage": cov,
          "assumptions": ctx.assumptions, "wall_s": round(ctx.elapsed(), 2), "violations": len(real),
          "known_findings_hit": sorted(set(ctx.known))}
    write_json(os.path.join(EVID, f"{prop}.json"), ev)
    for l in out_lines:
        print(l)
    print(f"{prop} {tier} seed={seed}: theorems={len(thms)} evaluations={cov['evaluations']} "
          f"distinct_nontrivial={cov['distinct_nontrivial']} violations={len(real)} known={len(set(ctx.known))} "
          f"unproved={len(ctx.unproved) + (1 if proof_broken else 0)} wall={ev['wall_s']}s")
    sys.exit(exit_code)


if __name__ == "__main__":
    main()
