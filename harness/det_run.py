#!/venv/bin/python
"""run one recorded simulation and print its canonical event log + statistics as one JSON line
(identifiers renumbered by first appearance; used for paired executions in separate interpreters)"""
import json, math, os, sys
HERE = os.path.dirname(os.path.abspath(__file__))
sys.path.insert(0, HERE)
import layer_m
from layer_s import template_scheduler


def fixed_workload(spec):
    """a workload that delivers hand-built DAG pipelines at given ticks: {"pipes": [{"prio": p, "ops": [{"parents": [...], "ticks": k, "mem": gb}]}], "arrivals": [[...]], "tps": n}"""
    from eudoxia.workload import Workload
    from eudoxia.workload.pipeline import Pipeline, Segment
    from eudoxia.utils import Priority
    pls = []
    for k, p in enumerate(spec["pipes"]):
        pl = Pipeline(f"d{k}", Priority(p["prio"]))
        ops = []
        for o in p["ops"]:
            op = pl.new_operator([ops[i] for i in o["parents"]] if o["parents"] else None)
            op.add_segment(Segment(baseline_cpu_seconds=o["ticks"] / spec["tps"], cpu_scaling="const", memory_gb=o["mem"], storage_read_gb=o.get("read", 0)))
            ops.append(op)
        pls.append(pl)

    class W(Workload):
        def __init__(self):
            self.t = 0
        def run_one_tick(self):
            out = [pls[i] for i in spec["arrivals"][self.t]] if self.t < len(spec["arrivals"]) else []
            self.t += 1
            return out
    return W()


def canonical(params, algo, warmup=0, workload=None):
    from eudoxia.simulator import run_simulator, get_param_defaults
    for i in range(warmup):      # advance process-global counters and registries first
        run_simulator({"duration": 5, "ticks_per_second": 10, "scheduler_algo": ["naive", "priority"][i % 2], "random_seed": 1000 + i,
                       "waiting_seconds_mean": 0.5, "num_pools": 2})
    if warmup:
        # and a run configured the way the README does it: take the defaults, override some -- including values the run under test leaves to default
        p = get_param_defaults()
        p.update({"duration": 3, "ticks_per_second": 10, "scheduler_algo": "naive", "waiting_seconds_mean": 0.5, "num_pools": 1, "num_pipelines": 2,
                  "interactive_prob": 0.9, "query_prob": 0.05, "batch_prob": 0.05, "cpu_io_ratio": 0.1, "num_operators": 2, "random_seed": 7,
                  "cpus_per_pool": 2, "ram_gb_per_pool": 8, "multi_operator_containers": False})
        run_simulator(p)
    real = template_scheduler() if algo == "template" else algo
    stats, rec = layer_m.run_recorded(params, real, fixed_workload(workload) if workload else None)
    pipe_no, op_no, ctr_no = {}, {}, {}

    def pno(p):
        return pipe_no.setdefault(id(p), len(pipe_no))

    def ono(o):
        return op_no.setdefault(id(o), len(op_no))

    def cno(c):
        return ctr_no.setdefault(c, len(ctr_no))

    log = []
    for t in range(len(rec.arrivals)):
        arr = []
        for p in rec.arrivals[t]:
            ops = list(p.values)
            arr.append([pno(p), p.priority.value, [[ono(o), [ono(q) for q in o.parents],
                        [[s.baseline_cpu_seconds, s.scaling_func.__name__, s.memory_gb, s.storage_read_gb] for s in o.get_segments()]] for o in ops]])
        call, ex = rec.ticks[t], rec.exec[t]
        asg = [[a.pool_id, a.cpu, a.ram, a.priority.value, [ono(o) for o in a.ops]] for a in call["asg"]]
        res = [[cno(r.container_id), int(not r.failed()), r.pool_id, [ono(o) for o in r.ops]] for r in ex["results"]]
        sus = [[s.pool_id, cno(s.container_id)] for s in call["sus"]]
        log.append([arr, asg, sus, res])
    d = stats.to_dict()

    def clean(x):
        if isinstance(x, dict):
            return {k: clean(v) for k, v in x.items()}
        if isinstance(x, float) and math.isnan(x):
            return "nan"
        return x
    return {"log": log, "stats": clean(d)}


if __name__ == "__main__":
    spec = json.loads(sys.argv[1])
    print(json.dumps(canonical(spec["params"], spec["algo"], spec.get("warmup", 0), spec.get("workload")), sort_keys=True))
