"""C01 - operators never start before their parents have completed; DAG iteration"""
import itertools, random, sys
import elayer
from common import Driver, REPO
from props.ecommon import mix

PROJ = {"st": True}


def all_dags(n):
    """every DAG on n nodes in which node i may only name earlier nodes as parents"""
    choices = [[list(c) for k in range(i + 1) for c in itertools.combinations(range(i), k)] for i in range(n)]
    for combo in itertools.product(*choices):
        yield list(combo)


def impl_iter(dag):
    if REPO not in sys.path:
        sys.path.insert(0, REPO)
    from eudoxia.workload.pipeline import Pipeline
    from eudoxia.utils import Priority
    p = Pipeline("p", Priority.BATCH_PIPELINE)
    ops = []
    for par in dag:
        ops.append(p.new_operator([ops[i] for i in par] if par else None))
    return [ops.index(o) for o in p.values], [ops.index(o) for o in p.runtime_status().operator_states]


def impl_iter_interleaved(dag):
    """the same DAG, iterated (twice) after every node that is added, and twice at the end: iteration must not depend on earlier iterations"""
    if REPO not in sys.path:
        sys.path.insert(0, REPO)
    from eudoxia.workload.pipeline import Pipeline
    from eudoxia.utils import Priority
    p = Pipeline("p", Priority.BATCH_PIPELINE)
    ops, partial = [], []
    for par in dag:
        ops.append(p.new_operator([ops[i] for i in par] if par else None))
        partial.append([ops.index(o) for o in p.values])
        list(p.values)
    return [ops.index(o) for o in p.values], [ops.index(o) for o in p.values], partial


def impl_iter_shared_list(dag):
    """the same DAG built by a caller that keeps ONE list for the parents and refills it for every node (and empties it at the end):
    the DAG must have taken what it needs at `add_node` time"""
    if REPO not in sys.path:
        sys.path.insert(0, REPO)
    from eudoxia.workload.pipeline import Pipeline
    from eudoxia.utils import Priority
    p = Pipeline("p", Priority.BATCH_PIPELINE)
    ops, buf = [], []
    for par in dag:
        buf.clear()
        buf.extend(ops[i] for i in par)
        ops.append(p.new_operator(buf if buf else None))
    buf.clear()
    return [ops.index(o) for o in p.values], [sorted(ops.index(q) for q in o.parents) for o in ops]


def impl_iter_oneshot_parents(dag):
    """the same DAG built by a caller that hands the parents over as one-shot iterables (a generator, `filter`, `map`, a tuple)"""
    if REPO not in sys.path:
        sys.path.insert(0, REPO)
    from eudoxia.workload.pipeline import Pipeline
    from eudoxia.utils import Priority
    p = Pipeline("p", Priority.BATCH_PIPELINE)
    ops = []
    for k, par in enumerate(dag):
        ps = [ops[i] for i in par]
        arg = None if not ps else [(x for x in ps), filter(None, ps), map(lambda x: x, ps), tuple(ps)][k % 4]
        ops.append(p.new_operator(arg))
    return [ops.index(o) for o in p.values], [sorted(ops.index(q) for q in o.parents) for o in ops]


def impl_iter_after_progress(dag):
    """the pipeline is run to its end the way a one-operator-per-container scheduler does it -- asking the status for the ready operators before every step --
    and iterated afterwards: the DAG is what it was"""
    if REPO not in sys.path:
        sys.path.insert(0, REPO)
    from eudoxia.workload.pipeline import Pipeline
    from eudoxia.workload import OperatorState as S
    from eudoxia.workload.runtime_status import ASSIGNABLE_STATES
    from eudoxia.utils import Priority
    p = Pipeline("p", Priority.BATCH_PIPELINE)
    ops = []
    for par in dag:
        ops.append(p.new_operator([ops[i] for i in par] if par else None))
    rs = p.runtime_status()
    for _ in range(len(dag) + 1):
        ready = rs.get_ops(ASSIGNABLE_STATES, require_parents_complete=True)
        rs.get_ops(ASSIGNABLE_STATES, require_parents_complete=False)
        for op in ready[:1]:
            for t in (S.ASSIGNED, S.RUNNING, S.COMPLETED):
                op.transition(t)
    return [ops.index(o) for o in p.values], [sorted(ops.index(q) for q in o.parents) for o in ops]


def impl_iter_overlapping(dag):
    """two iterations of the same DAG alive at once: the first is advanced k steps, a second one is started and run to its end, then the first is
    finished; and two iterators advanced in lock-step (`zip`).  Each of them must still visit every operator exactly once, parents first"""
    if REPO not in sys.path:
        sys.path.insert(0, REPO)
    from eudoxia.workload.pipeline import Pipeline
    from eudoxia.utils import Priority
    p = Pipeline("p", Priority.BATCH_PIPELINE)
    ops = []
    for par in dag:
        ops.append(p.new_operator([ops[i] for i in par] if par else None))
    outs = []
    for k in sorted({0, 1, len(dag) // 2, max(len(dag) - 1, 0)}):
        it1 = iter(p.values)
        first = []
        for _ in range(k):
            try:
                first.append(next(it1))
            except StopIteration:
                break
        second = list(iter(p.values))
        first.extend(it1)
        outs.append(([ops.index(o) for o in first], [ops.index(o) for o in second]))
    za, zb = [], []
    for a, b in zip(p.values, p.values):
        za.append(ops.index(a))
        zb.append(ops.index(b))
    outs.append((za, zb))
    return outs


def check_dags(ctx, dags, drv, exhaustive_upto=None):
    n_div = 0
    for dag in dags:
        ctx.coverage["evaluations"] += 1
        order, status_order = impl_iter(dag)
        drv.send("reset")
        drv.send("cfg 1 64 1280 1 0 1 1 64")
        drv.send("pipe 3")
        for par in dag:
            drv.send(f"op 0 {','.join(map(str, par)) if par else '-'}")
        r = drv.send(f"order 0 {','.join(map(str, order))}")
        ctx.sit("dags_checked")
        if len(dag) >= 3 and any(len(p) >= 2 for p in dag):
            ctx.coverage["distinct_nontrivial"] += 1
        if not r["topoPerm"] or status_order != order:
            ctx.violations.append({"what": f"iterating the DAG {dag} yields {order}: not every operator exactly once with parents first"
                                           if not r["topoPerm"] else f"operator_states order {status_order} differs from iteration order {order}",
                                   "layer": "W", "dag": dag, "observed": order, "model": r["iter"], "sig": {"clause": "iteration"}})
            return
        # iterating while the DAG is being built, and iterating again, gives the same answer as iterating the finished DAG once
        o1, o2, partial = impl_iter_interleaved(dag)
        if o1 != order or o2 != order or any(sorted(pp) != list(range(k + 1)) for k, pp in enumerate(partial)):
            ctx.violations.append({"what": f"iteration of the DAG {dag} depends on earlier iterations: fresh {order}, after iterating during construction {o1}, "
                                           f"again {o2}, prefixes {partial}", "layer": "W", "dag": dag, "sig": {"clause": "iteration-repeatable"}})
            return
        for a, b in impl_iter_overlapping(dag):
            if a != order or b != order:
                ctx.violations.append({"what": f"two iterations of the DAG {dag} alive at the same time disturb each other: one yields {a}, the other {b} "
                                               f"(an iteration alone: {order})", "layer": "W", "dag": dag, "sig": {"clause": "iteration-overlapping"}})
                return
        o5, pars5 = impl_iter_after_progress(dag)
        if o5 != order or pars5 != [sorted(x) for x in dag]:
            ctx.violations.append({"what": f"after the pipeline with the DAG {dag} has been run (ready operators asked for before every step) it iterates as {o5} "
                                           f"(before: {order}) and records the parents {pars5}", "layer": "W", "dag": dag, "sig": {"clause": "iteration-after-run"}})
            return
        o4, pars4 = impl_iter_oneshot_parents(dag)
        if o4 != order or pars4 != [sorted(x) for x in dag]:
            ctx.violations.append({"what": f"the DAG {dag} built from parents handed over as generators / filter / map / tuples iterates as {o4} (from lists: {order}) "
                                           f"and records the parents {pars4}", "layer": "W", "dag": dag, "sig": {"clause": "iteration-oneshot-parents"}})
            return
        o3, pars = impl_iter_shared_list(dag)
        if o3 != order or pars != [sorted(x) for x in dag]:
            ctx.violations.append({"what": f"the DAG {dag} built from a parents list that the caller re-uses afterwards iterates as {o3} (fresh lists: {order}) and "
                                           f"records the parents {pars}", "layer": "W", "dag": dag, "sig": {"clause": "iteration-aliasing"}})
            return
        if r["iter"] != order and n_div < 1:
            n_div += 1
            ctx.sit("iteration_order_differs_from_reference_but_is_topological")
    if exhaustive_upto:
        ctx.coverage["exhaustive"] = True
        ctx.coverage["exhaustive_note"] = f"every DAG on up to {exhaustive_upto} nodes (parents among earlier nodes)"


def run(ctx):
    drv = Driver()
    try:
        upto = 5 if ctx.quick() else 6
        for n in range(1, upto + 1):
            check_dags(ctx, all_dags(n), drv, exhaustive_upto=upto)
            if ctx.violations:
                return
        rng = random.Random(ctx.seed)
        for _ in range(100 if ctx.quick() else 1000):
            n = rng.randint(7, 14)
            dag = [sorted(rng.sample(range(i), rng.randint(0, min(3, i)))) for i in range(n)]
            check_dags(ctx, [dag], drv)
    finally:
        drv.close()
    ctx.coverage["samples"].append({"dag": [[], [0], [0], [1, 2]], "impl_order": impl_iter([[], [0], [0], [1, 2]])[0]})
    k = 1 if ctx.quick() else 8
    elayer.run_scenarios(ctx, "C01", mix(ctx, 100 * k, 20 * k, 0, 15 * k, 60 * k, bias={"unknown_pool": 0, "zero_frac": 0}), PROJ)


def replay(ctx, rep):
    if "dag" in rep:
        drv = Driver()
        try:
            check_dags(ctx, [rep["dag"]], drv)
        finally:
            drv.close()
    else:
        elayer.replay_scenario(ctx, "C01", rep, PROJ)
