"""C09 - every accepted assignment becomes exactly one container with exactly one outcome"""
import elayer
from props.ecommon import mix

PROJ = {"st": True, "A": [0, 7], "S": [0, 5], "D": True, "res": [0, 1, 2, 6]}


def run(ctx):
    k = 1 if ctx.quick() else 8
    elayer.run_scenarios(ctx, "C09", mix(ctx, 120 * k, 40 * k, 20 * k, 30 * k, 0, bias={"unknown_pool": 0.08, "zero_frac": 0}), PROJ)


def replay(ctx, rep):
    elayer.replay_scenario(ctx, "C09", rep, PROJ)
