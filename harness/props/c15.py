"""C15 - the workload generator emits well-formed pipelines that follow its parameters"""
import logging, math, random, sys
from fractions import Fraction as F
from common import Driver, REPO

logging.disable(logging.CRITICAL)
if REPO not in sys.path:
    sys.path.insert(0, REPO)


class RecordingRng:
    """stands in for `gen.rng`: forwards to the real numpy generator and records every draw"""
    def __init__(self, rng, values, script=None, gap_args=None):
        self.rng, self.values, self.draws = rng, list(values), []
        self.script, self.gap_args = list(script or []), gap_args    # scripted gap draws (directed cases): replace the value, keep the stream

    def normal(self, *a, **kw):
        v = float(self.rng.normal(*a, **kw))
        if self.script and not kw and tuple(a) == self.gap_args:
            v = float(self.script.pop(0))
        fr = F(v)
        self.draws.append(f"n{fr.numerator}/{fr.denominator}")
        return v

    def choice(self, *a, **kw):
        v = self.rng.choice(*a, **kw)
        self.draws.append(f"c{self.values.index(int(v))}")
        return v

    def __getattr__(self, name):
        raise AttributeError(f"the generator used rng.{name}, which the model does not know")


def proto_table():
    from eudoxia.workload import WorkloadGenerator
    segs = [WorkloadGenerator.generate_segment_from_val(None, v) for v in (-2, -0.75, -0.25, 0.25, 0.75, 1.25, 2)]
    q = WorkloadGenerator.generate_query_segment(None)
    key = lambda s: (s.baseline_cpu_seconds, s.scaling_func, s.memory_gb, s.storage_read_gb)
    return {key(s): i for i, s in enumerate(segs)}, key(q), key


def structure(p, table, qkey, key):
    """(problem or None, [prototype index per operator])"""
    ops = list(p.values)
    idx = []
    for k, op in enumerate(ops):
        want_parents = [ops[k - 1]] if k else []
        if list(op.parents) != want_parents:
            return f"operator {k} of {p.pipeline_id} is not chained to its predecessor", None
        segs = op.get_segments()
        if len(segs) != 1:
            return f"operator {k} of {p.pipeline_id} has {len(segs)} segments", None
        kk = key(segs[0])
        if kk == qkey and p.priority.name == "QUERY":
            idx.append(99)
        elif kk in table:
            idx.append(table[kk])
        else:
            return f"operator {k} of {p.pipeline_id} has a segment that is not one of the documented prototypes: {kk}", None
    return None, idx


def viol(ctx, clause, what, case):
    ctx.sit("mismatch_" + clause)
    if sum(1 for v in ctx.violations if v["sig"]["clause"] == clause) < 2:
        ctx.violations.append({"what": what, "layer": "W", "case": case, "sig": {"clause": clause}})


def make_params(rng):
    probs = rng.choice([(0.3, 0.1, 0.6), (0.0, 0.0, 1.0), (1.0, 0.0, 0.0), (0.0, 1.0, 0.0), (0.5, 0.5, 0.0), (0.25, 0.25, 0.5), (0.0, 0.5, 0.5)])
    tps = rng.choice([1, 10, 100, 1000, 100000])
    return {"waiting_seconds_mean": rng.choice([0.0004, 0.05, 0.5, 2.0, 10.0, 60.0, 3, 4, 5]) if rng.random() < 0.7 else rng.choice([3, 4, 5, 6]) / rng.choice([1, 10, 100]), "num_pipelines": rng.choice([1, 2, 3, 4, 5, 5, 11, 12, 25]),
            "num_operators": rng.choice([1, 2, 5, 8, 20, 40]), "num_segs": 1, "cpu_io_ratio": rng.choice([0.0, 0.25, 0.5, 1.0]),
            "random_seed": rng.randint(0, 10 ** 6), "interactive_prob": probs[0], "query_prob": probs[1], "batch_prob": probs[2],
            "ticks_per_second": tps}


def run_generator(params, nticks, record=True, script=None):
    from eudoxia.workload import WorkloadGenerator
    g = WorkloadGenerator(**params)
    rec = RecordingRng(g.rng, g.priority_values, script, (g.waiting_ticks_mean, g.waiting_ticks_stdev))
    if record:
        g.rng = rec
    out = [g.run_one_tick() for _ in range(nticks)]
    return g, rec, out


def scripted_gaps(ctx, drv, rng, tables):
    """directed: the gap draws themselves are chosen (the rest of the stream stays numpy's), so that every seed sees non-positive draws after long and
    after short waits, draws below one tick, exact integers and long gaps; the model replays the same stream"""
    for _ in range(3):
        wm = rng.choice([3, 4, 6, 9])
        params = {"waiting_seconds_mean": float(wm), "num_pipelines": rng.choice([1, 2]), "num_operators": wm + 2, "num_segs": 1, "cpu_io_ratio": 0.5,
                  "random_seed": rng.randint(0, 10 ** 6), "interactive_prob": 0.3, "query_prob": 0.1, "batch_prob": 0.6, "ticks_per_second": 1}
        script = []
        for _ in range(12):
            script.append(rng.choice([2.3 * wm, -0.4, wm + 0.7, 0.2, 0.0, 1.0, 1.9, -3.0, 1.5 * wm, 0.999, float(wm), -0.0]))
        script[0], script[1] = 2.3 * wm, rng.choice([-0.4, 0.0, 0.3])     # a non-positive (after int()) draw right after a wait longer than the mean
        one_run(ctx, drv, rng, tables, params, script)
        ctx.sit("scripted_gap_runs")


def one_run(ctx, drv, rng, tables, params=None, script=None):
    table, qkey, key = tables
    params = params or make_params(rng)
    wm = int(params["waiting_seconds_mean"] * params["ticks_per_second"])
    nticks = min(max(3 * wm + 5, 30), 4000) if wm < 3000 else wm * 2 + 5
    nticks = min(nticks, 200000)
    if script:
        nticks = int(sum(max(x, wm) for x in script)) + 5
    try:
        g, rec, out = run_generator(params, nticks, script=script)
    except AttributeError as e:
        ctx.unproved.append({"kind": "correspondence", "component": "WorkloadGenerator draws", "detail": str(e), "params": params})
        return
    ctx.coverage["evaluations"] += 1
    seen = set()
    impl = []
    events = 0
    for t, ps in enumerate(out):
        row = []
        if ps:
            events += 1
            if len(ps) != params["num_pipelines"]:
                return viol(ctx, "pipelines-per-event", f"an arrival event delivered {len(ps)} pipelines, num_pipelines = {params['num_pipelines']}", {"params": params, "tick": t})
        for p in ps:
            if p.pipeline_id in seen:
                return viol(ctx, "fresh-ids", f"pipeline id {p.pipeline_id} delivered twice", {"params": params, "tick": t})
            seen.add(p.pipeline_id)
            prob, idx = structure(p, table, qkey, key)
            if prob:
                return viol(ctx, "structure", prob, {"params": params, "tick": t})
            if p.priority.name == "QUERY" and idx != [99]:
                return viol(ctx, "query-one-operator", f"query pipeline {p.pipeline_id} has operators {idx} (must be exactly one, the query prototype)", {"params": params, "tick": t})
            if p.priority.name != "QUERY" and (len(idx) < 1 or idx[0] != 0):
                return viol(ctx, "first-operator-io-heavy", f"pipeline {p.pipeline_id}: operators {idx}; the first must be the I/O-heavy prototype", {"params": params, "tick": t})
            pr = {"QUERY": params["query_prob"], "INTERACTIVE": params["interactive_prob"], "BATCH_PIPELINE": params["batch_prob"]}[p.priority.name]
            if pr == 0:
                return viol(ctx, "zero-probability-class", f"a {p.priority.name} pipeline appeared although its probability is 0", {"params": params, "tick": t})
            row.append([int(p.pipeline_id[1:]), p.priority.value, idx])
        impl.append(row)
    m = drv.send(f"gen {params['num_pipelines']} {wm} {nticks} " + (",".join(rec.draws) or "-"))
    ctx.sit("generator_runs")
    ctx.sit("events", events)
    if not m.get("fits") or m["out"] != impl or m["left"] != 0:
        mo = m.get("out", [])
        first = next((t for t in range(nticks) if t >= len(mo) or mo[t] != impl[t]), None)
        ctx.sit("model_divergence")
        if not m.get("fits") and first is not None and first >= len(mo) and not impl[first]:
            # the model wants an arrival event at this tick (it asks for draws the generator never made)
            mo = mo + [["event due"]]
            m = dict(m, out=mo + [[]] * nticks, fits=True)
        if m.get("fits") and first is not None and (not impl[first]) != (not m["out"][first]):
            ev = [t for t in range(first) if impl[t]]
            return viol(ctx, "gap-rule", f"arrival events must be floor(draw) ticks apart, or waiting_ticks_mean = {wm} when the draw is not positive: after the event at tick "
                        f"{ev[-1] if ev else None} the next one is due at tick {first if m['out'][first] else 'later'}, the generator "
                        f"{'emits nothing there' if m['out'][first] else 'emits one at tick ' + str(first)}"
                        + (f" and stays silent for the remaining {nticks - first} ticks" if not any(impl[first:]) else ""), {"params": params, "nticks": nticks})
        if m.get("fits") and first is not None and first < len(m["out"]) and len(m["out"][first]) == len(impl[first]):
            for mp, ip in zip(m["out"][first], impl[first]):
                if mp[1] == ip[1] and len(mp[2]) != len(ip[2]):
                    return viol(ctx, "chain-length", f"a non-query pipeline must be a chain of max(1, floor(draw)) operators: the draw gives {len(mp[2])} operators, "
                                f"the generator built {len(ip[2])} (num_operators = {params['num_operators']})", {"params": params, "tick": first})
        if len(ctx.unproved) < 3:
            ctx.unproved.append({"kind": "correspondence", "component": "WorkloadGenerator (draw stream replay)", "params": params,
                                 "first_diverging_tick": first, "impl": impl[first] if first is not None else None,
                                 "model": (m["out"][first] if m.get("fits") and first is not None else "draw stream does not fit the model"),
                                 "draws_head": rec.draws[:12]})
        return
    ctx.coverage["distinct_nontrivial"] += 1 if events >= 2 else 0
    if len(ctx.coverage["samples"]) < 2:
        ctx.coverage["samples"].append({"params": params, "nticks": nticks, "first_event": impl[0], "draws_head": rec.draws[:10]})


def ratio_effect(ctx, rng):
    """coupling: with the same seed, raising cpu_io_ratio from 0 to 1 never makes a later operator more I/O-heavy and
    makes some of them more CPU-heavy"""
    table, qkey, key = proto_table()
    base = {"waiting_seconds_mean": 0.5, "num_pipelines": 4, "num_operators": 6, "num_segs": 1, "random_seed": rng.randint(0, 10 ** 6),
            "interactive_prob": 0.3, "query_prob": 0.1, "batch_prob": 0.6, "ticks_per_second": 10}
    seqs = {}
    ladder = (0.0, 0.25, 0.5, 0.75, 1.0)
    for r in ladder:
        _, _, out = run_generator({**base, "cpu_io_ratio": r}, 400, record=False)
        seq = []
        for ps in out:
            for p in ps:
                prob, idx = structure(p, table, qkey, key)
                if prob:
                    return
                seq.append(idx)
        seqs[r] = seq
    ctx.coverage["evaluations"] += 1
    ctx.sit("ratio_pairs")
    case = {"params": base}
    # every step of the ladder (also the steps that start at 0 or end at 1): same structure, never more I/O-heavy
    for lo, hi in zip(ladder, ladder[1:]):
        x, y = seqs[lo], seqs[hi]
        if [len(i) for i in x] != [len(i) for i in y]:
            return viol(ctx, "ratio-changes-structure", "changing cpu_io_ratio changed the number of pipelines or operators", {**case, "from": lo, "to": hi})
        lx = [v for idx in x for v in idx[1:] if v != 99]
        ly = [v for idx in y for v in idx[1:] if v != 99]
        if any(q < p_ for p_, q in zip(lx, ly)):
            return viol(ctx, "ratio-not-monotone", f"raising cpu_io_ratio from {lo} to {hi} made a later operator more I/O-heavy for the same draw", {**case, "from": lo, "to": hi})
    a, b = seqs[0.0], seqs[1.0]
    if [len(x) for x in a] != [len(x) for x in b]:
        return viol(ctx, "ratio-changes-structure", "changing cpu_io_ratio changed the number of pipelines or operators", case)
    later_a = [x for idx in a for x in idx[1:] if x != 99]
    later_b = [x for idx in b for x in idx[1:] if x != 99]
    if any(y < x for x, y in zip(later_a, later_b)):
        return viol(ctx, "ratio-not-monotone", "raising cpu_io_ratio made a later operator more I/O-heavy for the same draw", case)
    if later_a and later_a == later_b:
        return viol(ctx, "ratio-no-effect", f"raising cpu_io_ratio from 0 to 1 leaves the prototypes of all {len(later_a)} later operators unchanged "
                    f"(all of them: prototype {sorted(set(later_a))})", case)
    ctx.coverage["distinct_nontrivial"] += 1


def statistics(ctx, rng, nops=8):
    """sampled, not proved: averages follow the parameters (5 sigma bands)"""
    n_ops, gaps, prios = [], [], {"QUERY": 0, "INTERACTIVE": 0, "BATCH_PIPELINE": 0}
    params = {"waiting_seconds_mean": 2.0, "num_pipelines": 3, "num_operators": nops, "num_segs": 1, "cpu_io_ratio": 0.5,
              "random_seed": rng.randint(0, 10 ** 6), "interactive_prob": 0.3, "query_prob": 0.1, "batch_prob": 0.6, "ticks_per_second": 100}
    _, _, out = run_generator(params, 60000, record=False)
    last = None
    for t, ps in enumerate(out):
        if ps:
            if last is not None:
                gaps.append(t - last)
            last = t
        for p in ps:
            prios[p.priority.name] += 1
            if p.priority.name != "QUERY":
                n_ops.append(len(list(p.values)))
    ctx.coverage["evaluations"] += 1
    tot = sum(prios.values())
    stat = {"mean_ops": sum(n_ops) / len(n_ops), "mean_gap_ticks": sum(gaps) / len(gaps), "n_events": len(gaps) + 1,
            "class_freq": {k: v / tot for k, v in prios.items()}}
    ctx.coverage["statistical_tests"] = stat
    # int() truncation lowers the mean by about 0.5; for small num_operators the floor at one operator matters: E max(1, floor(N(n, n/4))) computed exactly
    def phi(x):
        return 0.5 * (1 + math.erf(x / math.sqrt(2)))
    sd = nops / 4
    expect = phi((2 - nops) / sd) + sum(k * (phi((k + 1 - nops) / sd) - phi((k - nops) / sd)) for k in range(2, 12 * nops + 10))
    if nops <= 4 and abs(stat["mean_ops"] - expect) > 5 * sd / math.sqrt(len(n_ops)) + 0.02:
        viol(ctx, "stat-num-operators", f"mean operator count {stat['mean_ops']:.3f} is not the {expect:.3f} that num_operators = {nops} gives "
                                        f"(chains of max(1, floor(N({nops}, {sd})))) operators)", {"params": params})
    if abs(stat["mean_ops"] - (nops - 0.5)) > 5 * (nops / 4) / math.sqrt(len(n_ops)) + 0.1 and nops > 4:
        viol(ctx, "stat-num-operators", f"mean operator count {stat['mean_ops']:.2f} is not about num_operators = {nops}", {"params": params})
    if abs(stat["mean_gap_ticks"] - (200 - 0.5 + 1)) > 5 * 50 / math.sqrt(len(gaps)) + 1:
        viol(ctx, "stat-gap", f"mean gap {stat['mean_gap_ticks']:.1f} ticks is not about waiting_seconds_mean = 200 ticks", {"params": params})
    for k, pr in (("QUERY", 0.1), ("INTERACTIVE", 0.3), ("BATCH_PIPELINE", 0.6)):
        if abs(stat["class_freq"][k] - pr) > 5 * math.sqrt(pr * (1 - pr) / tot):
            viol(ctx, "stat-priorities", f"class {k} frequency {stat['class_freq'][k]:.3f} vs probability {pr}", {"params": params})


def two_generators(ctx, rng):
    """two generators alive at once (a trace being written while a simulation runs, two simulations side by side): each one's ids stay fresh, and
    each delivers exactly what it delivers when it is alone"""
    from eudoxia.workload import WorkloadGenerator
    for _ in range(4):
        params = make_params(rng)
        params.update({"waiting_seconds_mean": rng.choice([0.05, 0.5]), "ticks_per_second": 10})
        p2 = dict(params, random_seed=params["random_seed"] + 1, num_pipelines=rng.randint(1, 4))
        n = 60
        alone = [[p.pipeline_id for p in ps] for ps in run_generator(params, n, record=False)[2]]
        g1 = WorkloadGenerator(**params)
        out = [g1.run_one_tick() for _ in range(n // 3)]
        g2 = WorkloadGenerator(**p2)
        for t in range(n // 3, n):
            if t % 2:
                g2.run_one_tick()
            out.append(g1.run_one_tick())
            if not t % 2:
                g2.run_one_tick()
        ids = [p.pipeline_id for ps in out for p in ps]
        ctx.coverage["evaluations"] += 1
        ctx.sit("two_generators_side_by_side")
        if len(set(ids)) != len(ids):
            dup = next(x for x in ids if ids.count(x) > 1)
            return viol(ctx, "fresh-ids", f"with a second generator alive, a generator delivered the pipeline id {dup} twice", {"params": params, "second": p2})
        if [[p.pipeline_id for p in ps] for ps in out] != alone:
            return viol(ctx, "fresh-ids", "a generator delivers other pipelines (ids or ticks) when a second generator is alive than when it is alone",
                        {"params": params, "second": p2})


def run(ctx):
    rng = random.Random(ctx.seed)
    tables = proto_table()
    two_generators(ctx, random.Random(ctx.seed + 17))
    drv = Driver()
    try:
        scripted_gaps(ctx, drv, random.Random(ctx.seed + 29), tables)
        for _ in range(60 if ctx.quick() else 600):
            one_run(ctx, drv, rng, tables)
    finally:
        drv.close()
    for _ in range(3 if ctx.quick() else 20):
        ratio_effect(ctx, rng)
    statistics(ctx, rng)
    statistics(ctx, rng, nops=24)
    statistics(ctx, rng, nops=2)
    ctx.coverage["rule"] = ("generator runs over random parameter sets with every draw recorded by a proxy for gen.rng and replayed into the Lean model; "
                            "structure clauses checked on every emitted pipeline; coupling test of cpu_io_ratio with paired seeds; "
                            "averages sampled (labelled statistical_tests, not proofs); non-trivial = a run with at least two arrival events")
    ctx.assumptions.append("numpy's default_rng (normal, choice) is trusted: equal seeds give equal streams, normal(loc) = loc + z for the same underlying z")


def replay(ctx, rep):
    run(ctx)
