"""C20 - trace tools change only arrival times, within their stated bounds"""
import contextlib, csv, io, logging, math, os, random, sys, tempfile
from fractions import Fraction as F
from common import Driver, REPO
from props.c13 import dec, HEADER

logging.disable(logging.CRITICAL)
if REPO not in sys.path:
    sys.path.insert(0, REPO)

TPS = [1, 2, 3, 7, 10, 16, 100, 1000, 4096, 100000]


def finite_decimal(fr):
    return dec(fr) is not None


def make_rows(rng, tps, n, on_grid_frac=0.5):
    """pipelines with 1-3 rows each; arrival only on the first row; a quarter of the pipelines arrive at the same instant as their predecessor
    (generated traces emit several pipelines per event)"""
    rows, arrivals = [], []
    t = F(0)
    for i in range(n):
        if i and rng.random() < 0.25:
            pass                                   # same instant as the previous pipeline
        elif rng.random() < on_grid_frac:
            t = F(int(t * tps) + rng.randint(0, 40), tps)
            if not finite_decimal(t):
                t = F(int(t) + rng.randint(0, 3))
        elif rng.random() < 0.15:
            # a hair below a tick boundary (what float arithmetic writes for tick k: 0.7999999999999999): still inside tick k-1, must go down to it
            k = int(t * tps) + rng.randint(1, 40)
            t = F(k, tps) - F(1, 10 ** rng.choice([11, 13, 15, 16]))
            if not finite_decimal(t):
                t = F(int(t) + rng.randint(1, 3)) - F(1, 10 ** 15)
        else:
            t = t + F(rng.randint(1, 99999), 10 ** rng.choice([2, 3, 5]))
        a = dec(t)
        arrivals.append(a)
        for j in range(rng.randint(1, 3)):
            rows.append({"pipeline_id": f"p{i + 1}", "arrival_seconds": a if j == 0 else "", "priority": rng.choice(["QUERY", "INTERACTIVE", "BATCH_PIPELINE"]) if j == 0 else "",
                         "operator_id": f"op{j + 1}", "parents": f"op{j}" if j else "", "baseline_cpu_seconds": str(rng.choice([1, 2.5, 15, 0.001])),
                         "cpu_scaling": rng.choice(["const", "linear3", "sqrt"]), "memory_gb": rng.choice(["", "0", "4", "0.5"]),
                         "storage_read_gb": str(rng.choice([0, 10, 37.5, 55]))})
    return rows, arrivals


def write_csv(path, rows):
    cols = HEADER.strip().split(",")
    cols += [k for k in (rows[0] if rows else {}) if k not in cols]        # annotation columns a trace may carry
    with open(path, "w", newline="") as f:
        w = csv.DictWriter(f, fieldnames=cols)
        w.writeheader()
        for r in rows:
            w.writerow(r)


def read_csv(path):
    with open(path) as f:
        return list(csv.DictReader(f))


def run_tool(argv):
    from eudoxia.__main__ import main
    with contextlib.redirect_stdout(io.StringIO()), contextlib.redirect_stderr(io.StringIO()):
        main(argv)


def others(r):
    return {k: v for k, v in r.items() if k != "arrival_seconds"}


def viol(ctx, clause, what, case):
    ctx.sit("mismatch_" + clause)
    if sum(1 for v in ctx.violations if v["sig"]["clause"] == clause) < 2:
        ctx.violations.append({"what": what, "layer": "W", "case": case, "sig": {"clause": clause}})


def check_snap(ctx, drv, rng, td):
    tps = rng.choice(TPS)
    rows, arrivals = make_rows(rng, tps, rng.randint(1, 12))
    if rng.random() < 0.25:
        # arrivals below 1e-4 s the way Python writes them (exponent notation: what `tools jitter` leaves behind for a pipeline arriving at t = 0);
        # the text 7.7e-06 is the number 0.0000077
        tiny = sorted(rng.choice([7.739560485559635e-06, 2.5e-05, 4.388784397520523e-06, 9.9e-05, 1e-05, 3.2e-07]) for _ in range(3))
        k = 0
        for r in rows:
            if r["arrival_seconds"] and k < len(tiny):          # snap works row by row: the order of the arrivals does not matter to it
                r["arrival_seconds"] = repr(tiny[k]); k += 1
        if k:
            arrivals = [r["arrival_seconds"] for r in rows if r["arrival_seconds"]]
            ctx.sit("snap_arrivals_in_exponent_notation")
    if len(rows) % 5 == 0:
        annotate(random.Random(len(rows)), rows)
        ctx.sit("traces_with_extra_columns")
    fin, fout, fout2 = (os.path.join(td, x) for x in ("in.csv", "out.csv", "out2.csv"))
    write_csv(fin, rows)
    run_tool(["tools", "snap", fin, fout, str(tps), "-f"])
    run_tool(["tools", "snap", fout, fout2, str(tps), "-f"])
    out, out2 = read_csv(fout), read_csv(fout2)
    ctx.coverage["evaluations"] += 1
    case = {"tps": tps, "rows": rows}
    if len(out) != len(rows) or any(others(a) != others(b) for a, b in zip(rows, out)):
        return viol(ctx, "snap-other-columns", f"snap at {tps} ticks/s changed rows or columns other than the arrival", case)
    firsts = [(i, r) for i, r in enumerate(rows) if r["arrival_seconds"]]
    fr = ",".join(f"{F(r['arrival_seconds']).numerator}/{F(r['arrival_seconds']).denominator}" for _, r in firsts)
    nums = drv.send(f"snap {tps} {fr}")["num"]
    for (i, r), k in zip(firsts, nums):
        a = F(r["arrival_seconds"])
        o = out[i]["arrival_seconds"]
        want = F(k, tps)
        ctx.sit("snap_on_grid" if a == want else "snap_off_grid")
        good = (F(o) == want) if finite_decimal(want) else (float(o) == k / tps)
        if not good:
            return viol(ctx, "snap-value", f"snap of {r['arrival_seconds']} s at {tps} ticks/s gives {o}; floor(a*tps)/tps = {float(want)!r}"
                        + (" (an arrival already on a tick boundary was moved)" if a == want else ""), {"tps": tps, "arrival": r["arrival_seconds"], "snapped": o})
    for i, r in enumerate(rows):
        if not r["arrival_seconds"] and out[i]["arrival_seconds"]:
            return viol(ctx, "snap-other-columns", "snap filled an empty arrival cell", case)
    if finite_decimal(F(1, tps)) and [r["arrival_seconds"] for r in out] != [r["arrival_seconds"] for r in out2]:
        return viol(ctx, "snap-idempotent", f"snapping twice at {tps} ticks/s differs from snapping once", case)
    ctx.coverage["distinct_nontrivial"] += 1
    if len(ctx.coverage["samples"]) < 1:
        ctx.coverage["samples"].append({"tool": "snap", "tps": tps, "in": arrivals[:6], "out": [r["arrival_seconds"] for r in out if r["arrival_seconds"]][:6]})


def annotate(rng, rows):
    """a trace with two extra columns (the reader ignores what it does not know; the tools must carry them through)"""
    for k, r in enumerate(rows):
        r["owner"] = rng.choice(["ana", "bo", ""])
        r["note"] = f"n{k}"


def check_jitter(ctx, drv, rng, td):
    tps = rng.choice([1, 10, 100, 1000])
    rows, arrivals = make_rows(rng, tps, rng.randint(1, 12))
    if tps == 10:
        annotate(random.Random(len(rows)), rows)
        ctx.sit("traces_with_extra_columns")
    delta = rng.choice([0.0, 0.0, 0.001, 0.5, 1.0 / tps, 3.0, 100.0])
    if rng.random() < 0.3:
        # nanosecond-resolution stamps (or a trace the tool itself has jittered before) and shifts far below a microsecond: what is written must
        # still be the arrival plus an amount in [0, delta], not that value rounded to some coarser grid
        off = 0
        for r in rows:
            if r["arrival_seconds"]:
                off += rng.randint(1, 999)
                r["arrival_seconds"] = dec(F(r["arrival_seconds"]) + F(off, 10 ** 9))
        arrivals = [r["arrival_seconds"] for r in rows if r["arrival_seconds"]]
        delta = rng.choice([0.0, 3e-7, 2.5e-8, delta])
        ctx.sit("jitter_nanosecond_stamps" + ("_delta_zero" if delta == 0 else "_tiny_delta" if delta < 1e-6 else ""))
    seed = rng.randint(0, 10 ** 6)
    fin, f1, f2, f3 = (os.path.join(td, x) for x in ("in.csv", "j1.csv", "j2.csv", "j3.csv"))
    write_csv(fin, rows)
    run_tool(["tools", "jitter", fin, f1, repr(delta), "-s", str(seed), "-f"])
    run_tool(["tools", "jitter", fin, f2, repr(delta), "-s", str(seed), "-f"])
    run_tool(["tools", "jitter", fin, f3, repr(delta), "-s", str(seed + 1), "-f"])
    out = read_csv(f1)
    ctx.coverage["evaluations"] += 1
    case = {"tps": tps, "delta": delta, "seed": seed, "rows": rows}
    if open(f1).read() != open(f2).read():
        return viol(ctx, "jitter-reproducible", "jitter with the same seed gave different files", case)
    if delta > 0 and open(f1).read() == open(f3).read():
        return viol(ctx, "jitter-seed-ignored", "jitter with different seeds gave identical files", case)
    # group rows into pipelines
    def group(rs):
        g = []
        for r in rs:
            if r["arrival_seconds"]:
                g.append([r])
            else:
                g[-1].append(r)
        return g
    gin, gout = group(rows), group(out)
    key = lambda g: (g[0]["pipeline_id"], [others(r) for r in g])
    if sorted(map(key, gin), key=repr) != sorted(map(key, gout), key=repr):
        return viol(ctx, "jitter-pipelines-kept", "jitter lost, duplicated or altered a pipeline (columns other than the arrival)", case)
    old = {g[0]["pipeline_id"]: F(g[0]["arrival_seconds"]) for g in gin}
    new = [(g[0]["pipeline_id"], F(g[0]["arrival_seconds"])) for g in gout]
    tol = F(1, 10 ** 12)
    for pid, a in new:
        d = a - old[pid]
        if d < -tol * max(1, old[pid]) or d > F(delta) + tol * max(1, a):
            return viol(ctx, "jitter-bounds", f"jitter moved {pid} by {float(d)!r}, outside [0, {delta}]", case)
    if any(new[i][1] > new[i + 1][1] for i in range(len(new) - 1)):
        return viol(ctx, "jitter-sorted", "jitter output is not in ascending arrival order", case)
    # stable order: the model's stable sort of the new arrivals, taken in input order
    by_in = [(g[0]["pipeline_id"], dict(new)[g[0]["pipeline_id"]]) for g in gin]
    den = 1
    for _, a in by_in:
        den = den * a.denominator // math.gcd(den, a.denominator)
    m = drv.send("jitter " + ",".join(str(int(a * den)) for _, a in by_in) + " " + ",".join("0" for _ in by_in))["order"]
    if [by_in[i][0] for i, _ in m] != [p for p, _ in new]:
        return viol(ctx, "jitter-stable", "pipelines with equal new arrival are not kept in their input order", case)
    ctx.sit("jitter_delta_zero" if delta == 0 else "jitter_delta_pos")
    if len(set(arrivals)) < len(arrivals):
        ctx.sit("jitter_equal_arrivals_in_input" + ("_delta_zero" if delta == 0 else ""))
    ctx.coverage["distinct_nontrivial"] += 1


def check_seeds(ctx, rng, td, start=None, file_seed=None, stale=False, n=None):
    """sensitivity-sample: workload i is generated from seed start_seed + i (also for seed 0, and whatever seed the parameter file holds)"""
    import eudoxia.tools as tools
    start = rng.randint(0, 10 ** 5) if start is None else start
    n = n or rng.randint(2, 4)
    pf = os.path.join(td, "p.toml")
    open(pf, "w").write("duration = 1\nticks_per_second = 10\n" + (f"random_seed = {file_seed}\n" if file_seed is not None else ""))
    tasks = []

    class FakePool:
        def __init__(self, processes=None):
            pass
        def __enter__(self):
            return self
        def __exit__(self, *a):
            return False
        def map(self, fn, ts):
            tasks.extend(ts)
            return [(t.workload_index, False) for t in ts]

    seen = []

    class Stop(Exception):
        pass

    class FakeGen:
        def __init__(self, **kw):
            seen.append(kw.get("random_seed"))
            raise Stop()

    real_pool, real_gen = tools.multiprocessing.Pool, tools.WorkloadGenerator
    so, se = sys.stdout, sys.stderr
    try:
        tools.multiprocessing.Pool = FakePool
        with contextlib.redirect_stdout(io.StringIO()):
            tools.sensitivity_sample_command(pf, os.path.join(td, "out"), n, start_seed=start)
        tools.WorkloadGenerator = FakeGen
        if stale:
            # the output directory still holds the workloads of an earlier call (another start seed): they must be generated anew
            os.makedirs(os.path.join(td, "out"), exist_ok=True)
            for t in tasks:
                open(os.path.join(td, "out", f"w{t.workload_index}.csv"), "w").write("pipeline_id,arrival_seconds\n")
            ctx.sit("seed_wirings_into_a_used_directory")
        for t in tasks:
            tools._sensitivity_task(t)
            sys.stdout, sys.stderr = so, se
    finally:
        tools.multiprocessing.Pool, tools.WorkloadGenerator = real_pool, real_gen
        sys.stdout, sys.stderr = so, se
    ctx.coverage["evaluations"] += 1
    ctx.sit("seed_wirings")
    want = [start + i for i in range(n)]
    if [t.seed for t in tasks] != want or seen != want:
        return viol(ctx, "sample-seed", f"sensitivity-sample with start seed {start}: workload i must be generated from seed start+i = {want}; "
                    f"tasks carry {[t.seed for t in tasks]}, the generator received random_seed = {seen}", {"start_seed": start, "n": n, "generator_seeds": seen})
    ctx.coverage["distinct_nontrivial"] += 1


def jitter_across_processes(ctx, rng, td):
    """`eudoxia tools jitter` with the same seed gives the same file in another interpreter process, whatever its PYTHONHASHSEED"""
    import subprocess
    from common import PY
    rows, _ = make_rows(rng, 10, 8)
    fin = os.path.join(td, "xin.csv")
    write_csv(fin, rows)
    outs = []
    for hs in ("1", "2", "3"):
        fo = os.path.join(td, f"x{hs}.csv")
        env = dict(os.environ, PYTHONHASHSEED=hs, PYTHONPATH=REPO)
        r = subprocess.run([PY, "-m", "eudoxia", "tools", "jitter", fin, fo, "0.5", "-s", "7", "-f"], capture_output=True, text=True, env=env, timeout=300)
        if r.returncode != 0:
            ctx.assumptions.append("jitter across processes not run: " + r.stderr[-200:])
            return
        outs.append(open(fo).read())
    ctx.coverage["evaluations"] += 1
    ctx.sit("jitter_runs_in_three_processes")
    if len(set(outs)) != 1:
        return viol(ctx, "jitter-reproducible", "jitter with the same seed gives different files in different interpreter processes (PYTHONHASHSEED 1, 2, 3)",
                    {"rows": rows, "delta": 0.5, "seed": 7})
    ctx.coverage["distinct_nontrivial"] += 1


def run(ctx):
    rng = random.Random(ctx.seed)
    drv = Driver()
    try:
        with tempfile.TemporaryDirectory() as td:
            for i in range(150 if ctx.quick() else 1500):
                check_snap(ctx, drv, rng, td)
            for i in range(100 if ctx.quick() else 1000):
                check_jitter(ctx, drv, rng, td)
            jitter_across_processes(ctx, random.Random(ctx.seed + 5), td)
            check_seeds(ctx, rng, td, start=0, file_seed=1)
            check_seeds(ctx, rng, td, start=0)
            check_seeds(ctx, rng, td, start=41, file_seed=42)
            check_seeds(ctx, rng, td, start=11, stale=True)
            check_seeds(ctx, rng, td, start=7, n=19)          # more samples than any batch or worker count
            for i in range(3 if ctx.quick() else 10):
                check_seeds(ctx, rng, td)
    finally:
        drv.close()
    ctx.coverage["rule"] = ("random trace files run through `eudoxia tools snap|jitter` (the CLI entry point) and compared in exact decimal arithmetic with the "
                            "Lean model; sensitivity-sample seed wiring captured with a stub generator; non-trivial = a file that passed every clause")


def replay(ctx, rep):
    run(ctx)
