"""C11 - pool-level OOM kills take highest scorers first and stop once usage fits"""
import elayer
from props.ecommon import mix

PROJ = {"pool": ["cons", "capr"], "A": [0, 2, 3], "K": True, "res": [0, 1]}


def run(ctx):
    k = 1 if ctx.quick() else 8
    elayer.run_scenarios(ctx, "C11", mix(ctx, 30 * k, 0, 0, 200 * k, 0, bias={"unknown_pool": 0, "zero_frac": 0, "bad_suspend": 0}), PROJ)


def replay(ctx, rep):
    elayer.replay_scenario(ctx, "C11", rep, PROJ)
