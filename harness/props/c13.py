"""C13 - trace replay delivers each pipeline once, at the first tick >= its arrival (no tolerance)"""
import io, logging, math, os, random, sys, tempfile
from fractions import Fraction as F
from common import Driver, REPO

logging.disable(logging.CRITICAL)
if REPO not in sys.path:
    sys.path.insert(0, REPO)

HEADER = "pipeline_id,arrival_seconds,priority,operator_id,parents,baseline_cpu_seconds,cpu_scaling,memory_gb,storage_read_gb\n"
TPS = [1, 2, 3, 7, 10, 16, 50, 100, 1000, 1024, 4096, 10000, 100000]


def dec(fr):
    """finite decimal string of a fraction (None if it has none)"""
    fr = F(fr)
    d = fr.denominator
    while d % 2 == 0:
        d //= 2
    while d % 5 == 0:
        d //= 5
    if d != 1:
        return None
    k = 0
    while (fr * 10 ** k).denominator != 1:
        k += 1
    n = int(fr * 10 ** k)
    s = str(n).rjust(k + 1, "0")
    return s[:-k] + "." + s[-k:] if k else s + ".0"


def csv_text(arrivals, ids=None):
    """one single-operator pipeline per arrival; the operator's baseline_cpu_seconds is the pipeline's index + 1 (a tag that survives whatever the ids are)"""
    rows = [HEADER]
    for i, a in enumerate(arrivals):
        rows.append(f"{ids[i] if ids else 'p' + str(i + 1)},{a},BATCH_PIPELINE,op1,,{i + 1},const,,1\n")
    return "".join(rows)


def tag(p):
    """index of a delivered pipeline (from the tag csv_text gave it)"""
    return int(round(list(p.values)[0].get_segments()[0].baseline_cpu_seconds)) - 1


def make_trace(arrivals, tps, ids=None):
    from eudoxia.workload.csv_io import CSVWorkloadReader
    return CSVWorkloadReader(io.StringIO(csv_text(arrivals, ids))).get_workload(tps)


def delivered_tick(astr, tps, expect):
    """tick in which the single pipeline with the written arrival `astr` is delivered (observed around `expect`)"""
    wl = make_trace([astr], tps)
    start = max(expect - 2, 0)
    wl.current_tick = start
    for t in range(start, expect + 4):
        if wl.run_one_tick():
            return t, start
    return None, start


def float_rule_tick(astr, tps):
    """the tick the float expression `arrival / tick_length <= tick` selects (the known defect D5)"""
    q = float(astr) / (1.0 / tps)
    return math.ceil(q), q


def classify_single(astr, tps, got, start, exact):
    """None if correct; else (sig, text)"""
    if got == exact or (got == start and exact < start):
        return None
    ft, q = float_rule_tick(astr, tps)
    prod = F(astr) * tps
    if got == ft and abs(got - exact) == 1 and abs(F(q) - prod) <= F(1, 10 ** 9) * max(prod, 1):
        side = "late" if got > exact else "early"
        return ({"clause": "off-by-one-float-quotient"},
                f"arrival {astr} s at {tps} ticks/s is delivered in tick {got}, one tick {side} (the first tick starting at or after it is {exact}; "
                f"the float quotient arrival/tick_length = {q!r} is on the other side of the tick boundary than the exact {float(prod)!r})")
    return ({"clause": "wrong-delivery-tick"},
            f"arrival {astr} s at {tps} ticks/s is delivered in tick {got}; the first tick starting at or after it is {exact}")


def grid(ctx, drv):
    rng = random.Random(ctx.seed)
    kmax = 3000 if ctx.quick() else 10000
    for tps in TPS:
        tl = 1.0 / tps
        ks = list(range(0, kmax if tps in (10, 100, 1000) else 300)) + [rng.randrange(10 ** 4, 3 * 10 ** 6) for _ in range(60 if ctx.quick() else 600)]
        cases = []
        for k in ks:
            d = dec(F(k, tps))
            if d is not None:
                cases.append(("grid-decimal", d, k))
            cases.append(("as-gentrace-writes", repr(k * tl), None))
            if rng.random() < 0.3:
                off = F(k, tps) + F(rng.randint(1, 999), 1000 * tps)
                do = dec(off)
                if do is not None and len(do) < 17:
                    cases.append(("off-grid", do, None))
        fr = ",".join(f"{F(a).numerator}/{F(a).denominator}" for _, a, _ in cases)
        exact = drv.send(f"deliver {tps} {fr}")["ticks"]
        for (kind, astr, k), ex in zip(cases, exact):
            ctx.coverage["evaluations"] += 1
            ctx.sit("map_" + kind)
            if k is not None and ex != k:
                raise RuntimeError(f"model: on-grid {astr} at {tps} maps to {ex}, not {k}")
            got, start = delivered_tick(astr, tps, ex)
            bad = classify_single(astr, tps, got, start, ex)
            if bad:
                record(ctx, bad[0], bad[1], {"arrival": astr, "tps": tps, "delivered_tick": got, "first_tick_at_or_after": ex})
            else:
                ctx.coverage["distinct_nontrivial"] += 1


def record(ctx, sig, what, case):
    n = sum(1 for v in ctx.violations if v["sig"] == sig)
    ctx.sit("mismatch_" + sig["clause"])
    if n < 2:
        ctx.violations.append({"what": what, "layer": "W", "case": case, "sig": sig})


def multi(ctx, drv):
    """several pipelines per tick, gaps, arrivals beyond the end: full replay from tick 0"""
    rng = random.Random(ctx.seed + 1)
    for it in range(60 if ctx.quick() else 600):
        tps = rng.choice([1, 2, 4, 8, 10, 16, 100, 1000])
        nticks = rng.randint(5, 120)
        fr = []
        t = F(0)
        for _ in range(rng.randint(1, 25)):
            if rng.random() < 0.6:
                t += F(rng.randint(0, 3 * 1000), 1000 * tps) if rng.random() < 0.5 else F(rng.randint(0, 4), tps)
            if rng.random() < 0.05:
                t += F(nticks, tps)
            if rng.random() < 0.2:
                t = F(math.ceil(t * tps), tps)       # exactly on the next tick boundary (same tick as an earlier off-grid arrival)
            if dec(t) is None or len(dec(t)) > 16:
                t = F(int(t * tps), tps) if dec(F(int(t * tps), tps)) else F(int(t))
            fr.append(t)
        if rng.random() < 0.2:
            # two (or three) distinct arrivals a hair's breadth apart, on either side of a tick boundary far from zero: they belong to different ticks
            tps = rng.choice([1, 2, 4])
            k = rng.randint(2000, 6000) * tps
            fr = [F(k, tps) - F(1, 10 ** 6), F(k, tps) + F(5, 10 ** 7)]
            if rng.random() < 0.5:
                fr.append(F(k, tps) + F(6, 10 ** 7))
            if rng.random() < 0.5:
                fr.insert(0, F(rng.randint(0, k - 1), tps))
            nticks = k + 3
            ctx.sit("replays_with_near_equal_arrivals_across_a_boundary")
        arrs = [dec(x) for x in fr]
        m = drv.send(f"replay {tps} {nticks} " + ",".join(f"{x.numerator}/{x.denominator}" for x in fr))
        ids = None
        if rng.random() < 0.25 and len(arrs) >= 3:
            # pipeline ids re-used in non-adjacent blocks (two recordings concatenated): rows are grouped by adjacency, every block is a pipeline of its own
            ids = [f"p{(i % 2) + 1}" for i in range(len(arrs))]
            ctx.sit("replays_with_reused_pipeline_ids")
        wl = make_trace(arrs, tps, ids)
        out = []
        for _ in range(nticks):
            out.append([tag(p) for p in wl.run_one_tick()])
        ctx.coverage["evaluations"] += 1
        ctx.sit("replays")
        if any(len(x) >= 2 for x in m["out"]):
            ctx.sit("replays_with_several_per_tick")
        if any(tk >= nticks for tk in m["ticks"]):
            ctx.sit("replays_with_arrivals_after_end")
        if out != m["out"]:
            # explained by the float rule alone?
            pred = [[] for _ in range(nticks)]
            for i, a in enumerate(arrs):
                ft = float_rule_tick(a, tps)[0]
                if ft < nticks:
                    pred[ft].append(i)
            ok_order = all(abs(float_rule_tick(a, tps)[0] - tk) <= 1 for a, tk in zip(arrs, m["ticks"]))
            sig = {"clause": "off-by-one-float-quotient"} if (out == pred and ok_order) else {"clause": "replay-differs"}
            record(ctx, sig, f"replay of {arrs} at {tps} ticks/s for {nticks} ticks returns {out}; exact: {m['out']}",
                   {"arrivals": arrs, "tps": tps, "nticks": nticks, "impl": out, "exact": m["out"]})
        else:
            ctx.coverage["distinct_nontrivial"] += 1
        if len(ctx.coverage["samples"]) < 2:
            ctx.coverage["samples"].append({"arrivals": arrs, "tps": tps, "nticks": nticks, "returned_per_tick": m["out"][:12]})


def roundtrip(ctx):
    """gentrace + run -w delivers every pipeline in the tick in which the generator produced it"""
    from eudoxia.__main__ import main
    from eudoxia.workload import WorkloadGenerator
    from eudoxia.workload.csv_io import CSVWorkloadReader
    from eudoxia.simulator import parse_args_with_defaults
    import contextlib
    rng = random.Random(ctx.seed + 2)
    shared = tempfile.mkdtemp()
    import atexit, shutil
    atexit.register(shutil.rmtree, shared, True)
    for it in range(6 if ctx.quick() else 40):
        tps = rng.choice([1, 3, 7, 10, 100, 1000, 128, 4096, 65536])
        # also durations that are not a whole number of seconds (the run then ends inside a second)
        dur = rng.choice([20, 60, 7.5, 12.75, 20.5]) if tps <= 128 else (rng.choice([6, 2.5]) if tps <= 4096 else rng.choice([1, 0.75]))
        params = {"ticks_per_second": tps, "duration": dur, "waiting_seconds_mean": rng.choice([0.5, 1.3, 2.0]),
                  "num_pipelines": rng.randint(1, 3), "random_seed": rng.randint(0, 10 ** 6)}
        if it < 2:
            # the run's very last tick: durations and tick rates for which duration / (1 / rate) and duration * rate are different floats (the
            # quotient falls one ulp short of the whole number), with a generator dense enough to emit on the last tick — the trace must be as
            # long as the run
            dur, tps = [(1, 123), (3, 75), (1, 1230), (7, 75)][(it + ctx.seed) % 4]
            # the second of them with a mean wait below one tick (the generator then emits on every tick; the trace must too)
            params.update({"ticks_per_second": tps, "duration": dur, "waiting_seconds_mean": (1.5 if it == 0 else 0.4) / tps, "num_pipelines": 2})
            ctx.sit("gentrace_roundtrip_dense_to_the_last_tick" if it == 0 else "gentrace_roundtrip_mean_wait_below_one_tick")
        with tempfile.TemporaryDirectory() as td:
            pf = os.path.join(td, "p.toml")
            with open(pf, "w") as f:
                for k, v in params.items():
                    f.write(f"{k} = {v}\n")
            out = os.path.join(shared, "t.csv")          # one path for all round trips of this check: overwritten, then replayed again
            with contextlib.redirect_stdout(io.StringIO()):
                main(["gentrace", pf, out, "-f"])
            first_text = open(out).read()
            if it % 2 == 0:
                # writing the same trace once more over the existing file (`-f`) must give the same trace
                with contextlib.redirect_stdout(io.StringIO()):
                    main(["gentrace", pf, out, "-f"])
                ctx.sit("gentrace_over_an_existing_file")
                if open(out).read() != first_text:
                    a_, b_ = first_text.splitlines(), open(out).read().splitlines()
                    k = next((i for i in range(min(len(a_), len(b_))) if a_[i] != b_[i]), min(len(a_), len(b_)))
                    record(ctx, {"clause": "gentrace-rewrite-differs"}, f"`gentrace -f` over an existing file writes another trace than into a new file "
                           f"({tps} ticks/s, seed {params['random_seed']}): {len(a_)} vs {len(b_)} lines, first difference in line {k + 1}: "
                           f"{a_[k] if k < len(a_) else None!r} / {b_[k] if k < len(b_) else None!r}", {"params": params})
                    return
            full = parse_args_with_defaults(params)
            gen = WorkloadGenerator(**full)
            n = int(dur * tps)
            want = [len(gen.run_one_tick()) for _ in range(n)]
            with open(out) as f:
                wl = CSVWorkloadReader(f).get_workload(tps)
                got = [len(wl.run_one_tick()) for _ in range(n)]
            written = [l.split(",")[1] for l in open(out).read().splitlines()[1:] if l.split(",")[1]]
        ctx.coverage["evaluations"] += 1
        ctx.sit("gentrace_roundtrips")
        if got != want:
            pred = [0] * n
            per_pipe = []
            for a in written:
                ft = float_rule_tick(a, tps)[0]
                if ft < n:
                    pred[ft] += 1
            late_writer = [a for a in written if F(a) * tps > math.floor(float(a) * tps + 0.5)]
            # the known finding D5b is the float product tick * (1/tps) written verbatim and replayed through the float quotient; a writer that puts
            # anything else into the file (rounded, shifted, ...) is a different defect, and on power-of-two tick rates floats are exact, so D5b cannot occur
            gen_ticks = [t for t in range(n) for _ in range(want[t])]
            verbatim = len(gen_ticks) == len(written) and all(float(a) == t * (1.0 / tps) for a, t in zip(written, gen_ticks))
            binary = tps & (tps - 1) == 0
            sig = {"clause": "gentrace-roundtrip-off-by-one-float"} if (pred == got and verbatim and not binary) else {"clause": "gentrace-roundtrip-differs"}
            record(ctx, sig, f"gentrace + replay at {tps} ticks/s (seed {params['random_seed']}): pipelines per tick differ from the generator "
                             f"(first difference at tick {next(t for t in range(n) if got[t] != want[t])}); "
                             f"{len(late_writer)} written arrival(s) lie after their tick's start",
                   {"params": params, "first_diff_tick": next(t for t in range(n) if got[t] != want[t])})
        else:
            ctx.coverage["distinct_nontrivial"] += 1


class _Seen(Exception):
    pass


def cli_replay_rate(ctx):
    """`eudoxia run PARAMS -w TRACE`: the trace is replayed at the tick rate the simulation runs at — whether the parameter file names it or leaves
    it to the default — and with the parameters the file gives"""
    import contextlib
    import eudoxia.__main__ as M
    from eudoxia.simulator import parse_args_with_defaults
    rng = random.Random(ctx.seed + 5)
    seen = {}
    orig = M.run_simulator

    def spy(params, workload=None):
        seen["tps_sim"] = parse_args_with_defaults(dict(params) if isinstance(params, dict) else params)["ticks_per_second"] \
            if isinstance(params, dict) else None
        seen["tps_trace"] = getattr(workload, "ticks_per_second", None)
        seen["ticks"] = [t for t in range(40) for _ in (workload.run_one_tick() if workload is not None else [])]
        raise _Seen()              # the simulation itself is not needed here

    M.run_simulator = spy
    try:
        for case in range(4 if ctx.quick() else 12):
            tps = [None, 8, None, 64][case % 4]
            arrivals = sorted(rng.randint(0, 15) / 8 for _ in range(rng.randint(1, 4)))
            with tempfile.TemporaryDirectory() as td:
                pf, tf = os.path.join(td, "p.toml"), os.path.join(td, "t.csv")
                with open(pf, "w") as f:
                    f.write("duration = 3\n" + (f"ticks_per_second = {tps}\n" if tps else ""))
                with open(tf, "w") as f:
                    f.write(csv_text([repr(a) for a in arrivals]))
                seen.clear()
                with contextlib.redirect_stdout(io.StringIO()), contextlib.redirect_stderr(io.StringIO()):
                    try:
                        M.main(["run", pf, "-w", tf])
                    except (SystemExit, _Seen):
                        pass
            ctx.coverage["evaluations"] += 1
            ctx.sit("cli_trace_replays")
            eff = tps or parse_args_with_defaults({})["ticks_per_second"]
            want = [t for t in sorted(math.ceil(F(a) * eff) for a in arrivals) if t < 40]
            if seen.get("tps_trace") != eff or seen.get("tps_sim") != eff or seen.get("ticks") != want:
                record(ctx, {"clause": "cli-replay-rate"},
                       f"`eudoxia run -w` with {'ticks_per_second = ' + str(tps) if tps else 'no ticks_per_second in the parameter file (default ' + str(eff) + ')'}: "
                       f"the simulation runs at {seen.get('tps_sim')} ticks/s, the trace is replayed at {seen.get('tps_trace')} ticks/s; arrivals {arrivals} s are "
                       f"delivered in ticks {seen.get('ticks')}, first ticks >= arrival at {eff}/s: {want}", {"tps_in_file": tps, "arrivals": arrivals})
                return
            ctx.coverage["distinct_nontrivial"] += 1
    finally:
        M.run_simulator = orig


def late_arrivals(ctx):
    """pipelines whose arrival lies at or after the end of the run are simply not delivered: they are not counted as created or as arrivals"""
    from eudoxia.simulator import run_simulator
    rng = random.Random(ctx.seed + 6)
    for _ in range(4 if ctx.quick() else 20):
        tps = rng.choice([1, 2, 4, 8])
        dur = rng.choice([2, 3, 5])
        n = dur * tps
        arrivals = sorted(rng.randint(0, 2 * n + 8) / tps for _ in range(rng.randint(2, 8)))
        arrivals.append((n + rng.randint(0, 50)) / tps)          # at least one pipeline at or after the end
        wl = make_trace([repr(a) for a in arrivals], tps)
        params = {"duration": dur, "ticks_per_second": tps, "scheduler_algo": "naive", "num_pools": 1, "cpus_per_pool": 64, "ram_gb_per_pool": 512}
        stats = run_simulator(params, workload=wl)
        ctx.coverage["evaluations"] += 1
        ctx.sit("runs_with_arrivals_after_the_end")
        inside = sum(1 for a in arrivals if math.ceil(F(a) * tps) < n)
        got = (stats.pipelines_created, stats.pipelines_all.arrival_count, stats.pipelines_batch.arrival_count)
        if got != (inside, inside, inside):
            record(ctx, {"clause": "late-arrivals-counted"},
                   f"run of {dur} s at {tps} ticks/s over a trace with arrivals {arrivals}: {inside} of them fall inside the run, the statistics report "
                   f"pipelines_created/all arrivals/batch arrivals = {got}", {"tps": tps, "duration": dur, "arrivals": arrivals})
            return
        ctx.coverage["distinct_nontrivial"] += 1


def run(ctx):
    drv = Driver()
    try:
        grid(ctx, drv)
        multi(ctx, drv)
    finally:
        drv.close()
    roundtrip(ctx)
    cli_replay_rate(ctx)
    late_arrivals(ctx)
    ctx.coverage["rule"] = ("arrival strings on the tick grid (as plain decimals and as gentrace writes them), off the grid, for 13 tick rates; "
                            "exhaustive k < 3000/10000 for 10, 100, 1000 ticks/s plus sampled k up to 3e6; random multi-pipeline replays; "
                            "gentrace round trips through the CLI; compared without tolerance against the exact rational tick; "
                            "non-trivial = a case that was delivered in the exact tick")


def replay(ctx, rep):
    c = rep.get("case", {})
    drv = Driver()
    try:
        if "arrival" in c:
            a, tps = c["arrival"], c["tps"]
            ex = drv.send(f"deliver {tps} {F(a).numerator}/{F(a).denominator}")["ticks"][0]
            got, start = delivered_tick(a, tps, ex)
            ctx.coverage["evaluations"] += 1
            bad = classify_single(a, tps, got, start, ex)
            if bad:
                record(ctx, bad[0], bad[1], c)
        else:
            multi(ctx, drv)
    finally:
        drv.close()
