"""C14 - trace files round-trip: what is written is what is read, for any pipeline DAG"""
import csv, io, json, logging, random, sys
from common import Driver, REPO

logging.disable(logging.CRITICAL)
if REPO not in sys.path:
    sys.path.insert(0, REPO)

LAWS = ["const", "log", "sqrt", "linear3", "linear7", "squared", "exp"]
NUMS = [0, 1, 2, 15, 0.1, 0.5, 2.5, 37.5, 1e-9, 3.3e-7, 1e12, 123456789.125, 0.30000000000000004, 55]
COLS = ["pipeline_id", "arrival_seconds", "priority", "operator_id", "parents", "baseline_cpu_seconds", "cpu_scaling", "memory_gb", "storage_read_gb"]


def gen_spec(rng, npipes):
    """pipelines as plain data: (priority name, arrival tick, [(parents, base, law, mem, read)])"""
    ps = []
    tick = 0
    for _ in range(npipes):
        if rng.random() < 0.6:
            tick += rng.randint(0, 7)
        # sometimes more than ten operators: operator numbers then have one and two digits ("op2", "op10"), which is where an order by text differs
        n = rng.randint(1, 7) if rng.random() < 0.8 else rng.randint(11, 15)
        ops = []
        for i in range(n):
            shape = rng.random()
            if shape < 0.25:
                par = [i - 1] if i else []
            elif shape < 0.4:
                par = []
            elif i >= 10 and shape < 0.7:
                par = sorted({rng.randrange(1, 9), rng.randrange(9, i)} | ({rng.randrange(i)} if rng.random() < 0.3 else set()))
            else:
                par = sorted(rng.sample(range(i), rng.randint(0, min(3, i))))
            ops.append((par, rng.choice(NUMS), rng.choice(LAWS), rng.choice([None, None, 0, 0.0, 4, 0.5, 1e-9]), rng.choice(NUMS)))
        ps.append((rng.choice(["QUERY", "INTERACTIVE", "BATCH_PIPELINE"]), tick, ops))
    return ps


def build(spec):
    from eudoxia.workload.pipeline import Pipeline, Segment
    from eudoxia.utils import Priority
    out = []
    for k, (prio, tick, ops) in enumerate(spec):
        p = Pipeline(f"orig{k}", Priority[prio])
        objs = []
        for par, base, law, mem, read in ops:
            o = p.new_operator([objs[i] for i in par] if par else None)
            # a third of the segments are built from the library's scaling *function* rather than from its name: the trace must name the law all the same
            how = Segment.SCALING_FUNCS[law] if (len(law) + int(read * 4)) % 3 == 0 else law
            o.add_segment(Segment(baseline_cpu_seconds=base, cpu_scaling=how, memory_gb=mem, storage_read_gb=read))
            objs.append(o)
        out.append((tick, p, objs))
    return out


def write_trace(built, tps, nticks):
    from eudoxia.workload import Workload
    from eudoxia.workload.csv_io import CSVWorkloadWriter, WorkloadTraceGenerator

    emitted = []

    class Fixed(Workload):
        def __init__(self):
            self.t = 0
        def run_one_tick(self):
            ps = [p for tick, p, _ in built if tick == self.t]
            self.t += 1
            emitted.extend(ps)
            return ps

    buf = io.StringIO()
    w = CSVWorkloadWriter(buf)
    # run length: half a tick beyond the last tick wanted, so that the generator's own int(duration * tps) cannot fall short of `nticks`
    # (29/100 s at 100 ticks/s is 28 ticks in floating point); the comparison below is against what the workload actually handed out
    for row in WorkloadTraceGenerator(Fixed(), tps, (nticks + 0.5) / tps).generate_rows():
        w.write_row(row)
    write_trace.emitted = emitted
    return buf.getvalue()


def read_trace(text):
    from eudoxia.workload.csv_io import CSVWorkloadReader
    return list(CSVWorkloadReader(io.StringIO(text)).batch_by_pipeline())


def law_name(seg):
    from eudoxia.workload.pipeline import Segment
    return next(n for n, f in Segment.SCALING_FUNCS.items() if f == seg.scaling_func)


def describe(p):
    """structure of a pipeline object, operators in creation order"""
    ops = list(p.values.node_lookup.values())
    return [p.priority.name, [[sorted(ops.index(q) for q in o.parents), o.get_segments()[0].baseline_cpu_seconds, law_name(o.get_segments()[0]),
                               o.get_segments()[0].memory_gb, o.get_segments()[0].storage_read_gb, len(o.get_segments())] for o in ops]]


def same_num(a, b):
    return (a is None) == (b is None) and (a is None or (float(a) == float(b)))


def struct_equal(a, b):
    if a[0] != b[0] or len(a[1]) != len(b[1]):
        return False
    return all(x[0] == y[0] and same_num(x[1], y[1]) and x[2] == y[2] and same_num(x[3], y[3]) and same_num(x[4], y[4]) and x[5] == y[5]
               for x, y in zip(a[1], b[1]))


def canon_rows(text):
    """rows of a file for the model: pipeline and operator ids numbered by first appearance (per pipeline block)"""
    rows = list(csv.DictReader(io.StringIO(text)))
    pid_no, out = {}, []
    op_no = {}
    last_pid = None
    for r in rows:
        if r["pipeline_id"] != last_pid:
            op_no = {}
            last_pid = r["pipeline_id"]
            pid_no.setdefault(r["pipeline_id"], len(pid_no) + 1)
        # a re-used pipeline id in a non-adjacent block is a new pipeline for the reader; keep the same number (grouping is by adjacency)
        oid = op_no.setdefault(r["operator_id"], len(op_no) + 1)
        pars = []
        for q in [x.strip() for x in (r.get("parents") or "").split(";") if x.strip()]:
            pars.append(op_no[q] if q in op_no else 10 ** 6 + len(pars))
        arr = (r.get("arrival_seconds") or "").strip()
        out.append([pid_no[r["pipeline_id"]], arr if arr else None, (r.get("priority") or "").strip(), oid, pars,
                    r["baseline_cpu_seconds"], r["cpu_scaling"], r["memory_gb"] if r.get("memory_gb") else None, r["storage_read_gb"]])
    return out


def viol(ctx, clause, what, case):
    ctx.sit("mismatch_" + clause)
    if sum(1 for v in ctx.violations if v["sig"]["clause"] == clause) < 2:
        ctx.violations.append({"what": what, "layer": "W", "case": case, "sig": {"clause": clause}})


def roundtrip(ctx, drv, rng):
    tps = rng.choice([1, 10, 100, 1000])
    spec = gen_spec(rng, rng.randint(1, 6))
    return roundtrip_case(ctx, drv, tps, spec)


def roundtrip_case(ctx, drv, tps, spec):
    spec = [(prio, tick, [tuple(o) for o in ops]) for prio, tick, ops in spec]
    nticks = max(t for _, t, _ in spec) + 1
    built = build(spec)
    text = write_trace(built, tps, nticks)
    handed_out = {id(p) for p in write_trace.emitted}
    if len(handed_out) != len(built):
        # the harness failed to make the generator ask for every tick: not a statement about the round trip
        raise RuntimeError(f"harness: the trace generator asked the workload for {len(handed_out)} of {len(built)} pipelines")
    ctx.coverage["evaluations"] += 1
    case = {"tps": tps, "spec": spec, "file": text[:1500]}
    try:
        back = read_trace(text)
    except Exception as e:
        return viol(ctx, "written-file-refused", f"the reader refuses a file the writer produced: {type(e).__name__}: {e}", case)
    if len(back) != len(built):
        return viol(ctx, "pipeline-count", f"{len(built)} pipelines written, {len(back)} read", case)
    for (tick, p, _), pa in zip(built, back):
        if not struct_equal(describe(p), describe(pa.pipeline)):
            return viol(ctx, "structure", f"pipeline written {describe(p)} read back as {describe(pa.pipeline)}", case)
    # writer against the model: same rows
    m_rows = drv.send("csv-write " + json.dumps([[prio, "A", [[par, repr(b), law, None if mem is None else repr(mem), repr(rd)] for par, b, law, mem, rd in ops]]
                                                 for prio, _, ops in spec]))["rows"]
    c_rows = canon_rows(text)
    def norm(rows):
        return [[r[0], r[1] is not None, r[2], r[3], r[4], float(r[5]), r[6], None if r[7] is None else float(r[7]), float(r[8])] for r in rows]
    if norm(m_rows) != norm(c_rows):
        if len(ctx.unproved) < 3:
            ctx.unproved.append({"kind": "correspondence", "component": "csv writer", "impl_rows": c_rows[:8], "model_rows": m_rows[:8]})
        return
    # reader against the model
    m_read = drv.send("csv-read " + json.dumps(c_rows))
    if "pipes" not in m_read:
        if len(ctx.unproved) < 3:
            ctx.unproved.append({"kind": "correspondence", "component": "csv reader", "model": m_read, "file": text[:800]})
        return
    for mp, pa in zip(m_read["pipes"], back):
        d = describe(pa.pipeline)
        if mp[0] != d[0] or [o[0] for o in mp[2]] != [o[0] for o in d[1]] or [o[2] for o in mp[2]] != [o[2] for o in d[1]]:
            if len(ctx.unproved) < 3:
                ctx.unproved.append({"kind": "correspondence", "component": "csv reader", "model": mp, "impl": d})
            return
    # read -> write reproduces every row apart from the arrival column
    rebuilt = [(i, pa.pipeline, None) for i, pa in enumerate(back)]
    text2 = write_trace(rebuilt, 1, len(back))
    r1, r2 = list(csv.DictReader(io.StringIO(text))), list(csv.DictReader(io.StringIO(text2)))
    NUM = ("baseline_cpu_seconds", "memory_gb", "storage_read_gb")
    strip = lambda r: {k: ((None if v == "" else float(v)) if k in NUM else v) for k, v in r.items() if k != "arrival_seconds"}
    # text level too: a file written from read-back pipelines is reproduced exactly by another read-write cycle
    text3 = write_trace([(i, pa.pipeline, None) for i, pa in enumerate(read_trace(text2))], 1, len(back))
    if [strip(r) for r in r1] != [strip(r) for r in r2] or text3 != text2:
        return viol(ctx, "read-write-rows", "reading a trace in the writer's format and writing it again changes rows (arrival column aside)", case)
    ctx.sit("roundtrips")
    if any(len(o[0]) >= 2 for _, _, ops in spec for o in ops):
        ctx.sit("with_multi_parent")
    if any(o[3] is not None and float(o[3]) == 0 for _, _, ops in spec for o in ops):
        ctx.sit("with_explicit_zero_memory")
    ctx.coverage["distinct_nontrivial"] += 1
    if len(ctx.coverage["samples"]) < 2:
        ctx.coverage["samples"].append({"file_head": text.splitlines()[:6]})


def malformed(ctx, drv, rng):
    base = [["p1", "0.5", "INTERACTIVE", "op1", "", "1", "const", "", "10"], ["p1", "", "", "op2", "op1", "2", "sqrt", "0", "5"],
            ["p2", "1.5", "QUERY", "op1", "", "15", "linear3", "", "35"]]
    breaches = {
        "missing priority on first row": lambda r: r[0].__setitem__(2, ""),
        "missing arrival on first row": lambda r: r[0].__setitem__(1, ""),
        "priority on a later row": lambda r: r[1].__setitem__(2, "INTERACTIVE"),
        "arrival on a later row": lambda r: r[1].__setitem__(1, "0.5"),
        "arrival 0 on a later row": lambda r: r[1].__setitem__(1, "0"),
        "arrival 0.0 on a later row": lambda r: r[1].__setitem__(1, "0.0"),
        "arrival and priority on a later row": lambda r: (r[1].__setitem__(1, "0.75"), r[1].__setitem__(2, "INTERACTIVE")),
        "arrival and priority on a later row that names no parent (a second root)": lambda r: (r[1].__setitem__(1, "0.75"), r[1].__setitem__(2, "QUERY"), r[1].__setitem__(4, "")),
        "unknown priority": lambda r: r[2].__setitem__(2, "URGENT"),
        "unknown scaling law": lambda r: r[1].__setitem__(6, "cubic"),
        "unknown scaling law that starts like a known one (linear5)": lambda r: r[1].__setitem__(6, "linear5"),
        "unknown scaling law that starts like a known one (logistic)": lambda r: r[1].__setitem__(6, "logistic"),
        "unknown scaling law that starts like a known one (squareroot)": lambda r: r[1].__setitem__(6, "squareroot"),
        "unknown scaling law in other letter case (CONST)": lambda r: r[1].__setitem__(6, "CONST"),
        "unknown priority that starts like a known one (QUERYING)": lambda r: r[2].__setitem__(2, "QUERYING"),
        "undefined parent": lambda r: r[1].__setitem__(4, "op7"),
        "parent defined only later": lambda r: (r[0].__setitem__(4, "op2")),
    }
    wellformed = {
        "well-formed": lambda r: None,
        "well-formed (first arrival 0)": lambda r: r[0].__setitem__(1, "0"),
        "well-formed (first arrival 0.0, memory 0)": lambda r: (r[0].__setitem__(1, "0.0"), r[0].__setitem__(7, "0")),
    }
    for name, f in list(breaches.items()) + list(wellformed.items()):
        rows = [list(x) for x in base]
        f(rows)
        text = ",".join(COLS) + "\n" + "".join(",".join(r) + "\n" for r in rows)
        ctx.coverage["evaluations"] += 1
        try:
            read_trace(text)
            raised = None
        except Exception as e:
            raised = type(e).__name__
        # the same file through the replay path (`CSVWorkloadReader.get_workload`, what `eudoxia run -w` uses): a file that is refused when read is refused
        # when replayed -- not silently cut short
        try:
            from eudoxia.workload.csv_io import CSVWorkloadReader
            wl = CSVWorkloadReader(io.StringIO(text)).get_workload(4)
            delivered = sum(len(wl.run_one_tick()) for _ in range(20))
            replay_raised = None
        except Exception as e:
            replay_raised, delivered = type(e).__name__, None
        if raised is not None and replay_raised is None:
            viol(ctx, "malformed-accepted", f"a file with {name} is refused by the reader but replays without an error ({delivered} pipeline(s) delivered, "
                                             f"the rest silently missing)", {"file": text})
            continue
        m = drv.send("csv-read " + json.dumps(canon_rows(text)))
        ctx.sit("malformed_files")
        model_refuses = "error" in m
        if not name.startswith("well-formed") and raised is None:
            viol(ctx, "malformed-accepted", f"a file with {name} is loaded instead of being refused", {"file": text})
        elif name.startswith("well-formed") and raised:
            viol(ctx, "wellformed-refused", f"a well-formed file is refused: {raised}", {"file": text})
        elif model_refuses != (raised is not None) and len(ctx.unproved) < 3:
            ctx.unproved.append({"kind": "correspondence", "component": "csv reader validation", "breach": name, "impl_raises": raised, "model": m})
        else:
            ctx.coverage["distinct_nontrivial"] += 1


def run(ctx):
    rng = random.Random(ctx.seed)
    drv = Driver()
    try:
        malformed(ctx, drv, rng)
        for _ in range(150 if ctx.quick() else 1500):
            roundtrip(ctx, drv, rng)
    finally:
        drv.close()
    ctx.coverage["rule"] = ("random workloads (DAGs with several roots and multi-parent operators, seven laws, integers/decimals/tiny/huge/zero, explicit 0 vs unset memory) "
                            "through the real CSVWorkloadWriter and CSVWorkloadReader; rows and read-back structure also compared with the Lean model; "
                            "fifteen hand-made malformed/well-formed files; non-trivial = a case that passed every comparison")
    ctx.assumptions.append("cell text is CPython's repr of a float and csv quoting: modelled as opaque values, not verified")


def replay(ctx, rep):
    """re-run exactly the recorded case (a round trip) or, for the hand-made files, the whole malformed set"""
    case = rep.get("case") or {}
    drv = Driver()
    try:
        if "spec" in case:
            roundtrip_case(ctx, drv, case["tps"], case["spec"])
        else:
            malformed(ctx, drv, random.Random(ctx.seed))
    finally:
        drv.close()
    ctx.coverage["rule"] = "replay of one recorded case"
