"""C05 - container execution follows the documented time and memory model"""
import itertools, logging, math, random, sys
from decimal import Decimal, getcontext
from fractions import Fraction as F
from common import Driver, REPO, fstr, num
from layer_e import LAWS, law_divisor, exact_cpu_ticks, quantum, classify

logging.disable(logging.CRITICAL)
if REPO not in sys.path:
    sys.path.insert(0, REPO)

L1_TPS = [1, 2, 4, 8, 16, 64, 256, 1024, 4096, 65536]
L2_TPS = [10, 100, 1000, 10000, 100000, 3, 7, 50]


def cpu_exact(base, law, c, tps):
    d = law_divisor(law, c)
    if d is not None:
        return F(base) * tps / d
    getcontext().prec = 60
    x = Decimal(F(base).numerator) / Decimal(F(base).denominator) * tps
    return x / Decimal(c).sqrt() if law == "sqrt" else x / (Decimal(c).ln() + 1)


def near_int(v):
    r = int(round(v))
    tol = (abs(v) if abs(v) > 1 else 1) * (F(1, 10 ** 9) if isinstance(v, F) else Decimal("1e-9"))
    return abs(v - r) <= tol, r


def gen_case(rng, lattice):
    """durations are drawn in *ticks* (so the run stays short at any tick rate) and converted to seconds / GB"""
    tps = rng.choice(L1_TPS if lattice else L2_TPS)
    if lattice:
        q, g = quantum(tps)
        unit = F(1, 64)
    else:
        q = 1000 * tps
        g = 20000
        unit = F(1, 1000)
    cpus = rng.choice([1, 1, 2, 3, 4, 5, 7, 8, 9, 16, 32, 64, 128])
    nops = rng.randint(1, 4)
    ops = []
    for _ in range(nops):
        segs = []
        for _s in range(rng.choice([1, 1, 2, 3])):
            law = rng.choice(LAWS)
            kind = rng.random()
            if kind < 0.12:
                base = rng.choice([F(0), F(1, 4 * tps)] + ([] if lattice else [F(1, 3 * tps), F(999, 1000 * tps)]))
            elif lattice:
                base = F(rng.choice([1, 2, 3, 5, 8, 13, 21, 34]) * rng.choice([1, 2, 3]), tps)
            else:
                # mostly off the tick grid (fractional part 1/4, 1/2, 3/10); sometimes exactly on it (a float boundary)
                base = F(rng.randint(1, 60), tps) * rng.choice([1, 1, 7]) + (F(0) if rng.random() < 0.12 else F(rng.choice([F(1, 4), F(1, 2), F(3, 10)]), tps))
            # read size: io ticks = read * tps / 20
            if lattice:
                step = F(g, q)                      # GB per I/O tick; a multiple of 1/64 by construction of q
                read = step * rng.choice([0, 0, 1, 2, 3, 5, 8, 20, 40]) + rng.choice([0, 0, unit])
                if (read / unit).denominator != 1:
                    read = step * 2
            else:
                read = F(20, tps) * (rng.choice([0, 0, 1, 2, 3, 5, 8, 20, 40]) + (0 if rng.random() < 0.12 else rng.choice([F(1, 4), F(1, 2), F(3, 10)])))
            if rng.random() < 0.1:
                read = rng.choice([F(0), unit])
            fixed = rng.choice([None, None, None, 0, unit, F(1, 2), 1, 4, 16])
            segs.append({"base": F(base), "law": law, "fixed": None if fixed is None else F(fixed), "read": F(read)})
        ops.append(segs)
    peak = max([s["fixed"] if s["fixed"] is not None else s["read"] for o in ops for s in o] + [unit])
    ram = rng.choice([peak, peak, peak + unit, max(peak - unit, unit), peak * 2, max(peak / 2, unit), unit])
    if (F(ram) / unit).denominator != 1:
        ram = peak
    if ram <= 0:
        ram = unit
    # dependencies: a chain, or (a third of the cases) any DAG in which the assigned order - the creation order - is a valid order without being
    # sorted by depth, e.g. [a, b (child of a), c (a second root)]: a container runs its operators in the order it was given
    if nops >= 2 and rng.random() < 0.35:
        parents = [sorted(rng.sample(range(k), rng.randint(0, min(2, k)))) for k in range(nops)]
    else:
        parents = [[k - 1] if k else [] for k in range(nops)]
    return {"tps": tps, "q": q, "g": g, "cpus": cpus, "ops": ops, "ram": F(ram), "lattice": lattice, "parents": parents}


def run_impl(case):
    from eudoxia.executor import Executor
    from eudoxia.executor.assignment import Assignment
    from eudoxia.workload.pipeline import Segment, Pipeline
    from eudoxia.workload import OperatorState
    from eudoxia.utils import Priority
    # the time and memory model of a container does not depend on the pool's overcommit switch: a third of the cases run with it on
    over = (case["cpus"] + len(case["ops"])) % 3 == 0
    ex = Executor(1, 256, 4096, case["tps"], multi_operator_containers=True, allow_memory_overcommit=over)
    p = Pipeline("p", Priority.BATCH_PIPELINE)
    ops = []
    par = case.get("parents") or [[k - 1] if k else [] for k in range(len(case["ops"]))]
    for k, segs in enumerate(case["ops"]):
        op = p.new_operator([ops[i] for i in par[k]] if par[k] else None)
        for s in segs:
            op.add_segment(Segment(baseline_cpu_seconds=num(s["base"]), cpu_scaling=s["law"],
                                   memory_gb=None if s["fixed"] is None else num(s["fixed"]), storage_read_gb=num(s["read"])))
        ops.append(op)
    a = Assignment(ops, case["cpus"], num(case["ram"]), p.priority, 0, "p")
    mem, idx = [], []
    res = None
    sus, asg = [], [a]
    for t in range(1, 2_000_000):
        try:
            r = ex.run_one_tick(sus, asg)
        except BaseException as e:
            return {"error": classify(e), "tick": t, "mem": mem, "idx": idx}
        asg = []
        if r:
            res = r[0]
            break
        c = ex.pools[0].active_containers[0]
        mem.append(c._current_memory)
        idx.append(c._current_op_idx)
        if t > 20000:
            return {"error": "no result after 20000 ticks", "tick": t, "mem": mem[:5], "idx": idx[:5]}
    st = p.runtime_status().operator_states
    L = {OperatorState.COMPLETED: "C", OperatorState.FAILED: "F", OperatorState.PENDING: "P", OperatorState.ASSIGNED: "A",
         OperatorState.RUNNING: "R", OperatorState.SUSPENDING: "S"}
    return {"mem": mem, "idx": idx, "end": t, "success": not res.failed(), "states": "".join(L[st[o]] for o in ops)}


def model_lines(case):
    q = case["q"]
    lines = [f"cfg {case['tps']} {q} {case['g']} 1 0 1 256 {4096 * q}", "pipe 3"]
    par = case.get("parents") or [[k - 1] if k else [] for k in range(len(case["ops"]))]
    for oid, segs in enumerate(case["ops"]):
        lines.append(f"op 0 {','.join(map(str, par[oid])) if par[oid] else '-'}")
        for s in segs:
            b = F(s["base"])
            fx = "-" if s["fixed"] is None else str(int(s["fixed"] * q))
            lines.append(f"seg 0 {oid} {b.numerator} {b.denominator} {s['law']} {fx} {int(s['read'] * q)}")
    return lines


def boundary_flags(case):
    """per segment: candidate (io, cpu) tick counts where the exact value is within 1e-9 of an integer"""
    out = []
    tps, c = case["tps"], case["cpus"]
    for segs in case["ops"]:
        for s in segs:
            cands = []
            for v in (F(s["read"]) * tps / 20, cpu_exact(s["base"], s["law"], c, tps)):
                ni, r = near_int(v)
                fl = int(math.floor(v)) if isinstance(v, F) else int(v.to_integral_value(rounding="ROUND_FLOOR"))
                cands.append(sorted({max(r - 1, 0), r}) if ni else [fl])
            out.append(cands)
    return out


def compare(case, impl, spec):
    q = case["q"]
    if "error" in impl:
        return f"implementation raised {impl['error']} at tick {impl['tick']}"
    if impl["end"] != spec["end"] or impl["success"] != spec["success"]:
        return f"result at tick {impl['end']} success={impl['success']}; documented model: tick {spec['end']} success={spec['success']}"
    if impl["idx"] != spec["idx"]:
        return f"operators completed per tick {impl['idx'][:20]} vs documented {spec['idx'][:20]}"
    for t, (a, b) in enumerate(zip(impl["mem"], spec["mem"])):
        exact = F(b, q)
        if case["lattice"]:
            if F(a) != exact:
                return f"memory after tick {t + 1}: {a} GB vs documented {float(exact)} GB"
        elif abs(a - float(exact)) > 1e-9 * max(1.0, abs(float(exact))):
            return f"memory after tick {t + 1}: {a} GB vs documented {float(exact)} GB"
    n = spec["completed"]
    want = "C" * n + ("" if spec["success"] else "F" * (len(case["ops"]) - n))
    if impl["states"] != want:
        return f"operator states {impl['states']} vs documented {want}"
    return None


def case_json(case):
    return {"tps": case["tps"], "cpus": case["cpus"], "ram_gb": fstr(case["ram"]), "lattice": case["lattice"],
            "ops": [[{"base": fstr(s["base"]), "law": s["law"], "fixed": None if s["fixed"] is None else fstr(s["fixed"]),
                      "read": fstr(s["read"])} for s in o] for o in case["ops"]], "parents": case.get("parents")}


def case_from_json(j):
    tps = j["tps"]
    if j["lattice"]:
        q, g = quantum(tps)
    else:
        q, g = 1000 * tps, 20000
    return {"tps": tps, "q": q, "g": g, "cpus": j["cpus"], "ram": F(j["ram_gb"]), "lattice": j["lattice"],
            "ops": [[{"base": F(s["base"]), "law": s["law"], "fixed": None if s["fixed"] is None else F(s["fixed"]), "read": F(s["read"])}
                     for s in o] for o in j["ops"]], "parents": j.get("parents")}


def one_case(ctx, drv, case):
    ctx.coverage["evaluations"] += 1
    refs = ",".join(f"0:{i}" for i in range(len(case["ops"])))
    drv.send("reset")
    for l in model_lines(case):
        drv.send(l)
    ramq = int(case["ram"] * case["q"])
    flags = boundary_flags(case)
    flagged = any(len(c) > 1 for seg in flags for c in seg)
    if case["lattice"]:
        # on the binary-exact lattice float arithmetic is exact unless a CPU time is irrational/non-dyadic near a boundary
        for segs in case["ops"]:
            for s in segs:
                if not exact_cpu_ticks(s["base"], s["law"], case["cpus"], case["tps"])[1]:
                    ctx.sit("discard_float_unsafe")
                    return
    spec = drv.send(f"spec {case['cpus']} {ramq} {refs} -")
    if spec["ambiguous_log"]:
        ctx.sit("discard_log_enclosure_undecided")
        return
    impl = run_impl(case)
    why = compare(case, impl, spec)
    nseg = sum(len(o) for o in case["ops"])
    ctx.sit("lattice" if case["lattice"] else "decimal")
    ctx.sit("oom" if not spec["success"] else "success")
    for o in case["ops"]:
        for s in o:
            ctx.sit("law_" + s["law"])
    if any(sum(a + b for a, b in row) == 1 and all(x == [0, 0] for x in [list(r) for r in row[:-1]]) and row[-1][0] == 0 and
           F(case["ops"][i][-1]["base"]) * case["tps"] < 1 for i, row in enumerate(spec["ticks"])):
        ctx.sit("zero_tick_operator")
    # off the binary-exact lattice the property grants either side at a float-rounding boundary -- of a tick count, and of the memory limit: a demand that
    # equals the allocation exactly in decimal (35 x 0.0002 GB against 0.007 GB) may compare as "exceeds" in floating point, which is the documented
    # model run with the limit one quantum lower
    limit_boundary = (not case["lattice"]) and ramq > 1 and ramq in spec["mem"]
    if why and (flagged or limit_boundary) and not case["lattice"]:
        per_seg = [list(itertools.product(*c)) for c in flags]
        for ram_try in ([ramq, ramq - 1] if limit_boundary else [ramq]):
            combos = itertools.islice(itertools.product(*per_seg), 1024)
            for combo in combos:
                adj = []
                k = 0
                for segs in case["ops"]:
                    row = [list(combo[k + j]) for j in range(len(segs))]
                    k += len(segs)
                    if sum(a + b for a, b in row) == 0:
                        row[-1][1] = 1
                    adj += row
                sp2 = drv.send(f"spec {case['cpus']} {ram_try} {refs} " + ",".join(f"{a}:{b}" for a, b in adj))
                if compare(case, impl, sp2) is None:
                    ctx.sit("accepted_at_flagged_boundary" if ram_try == ramq else "accepted_at_limit_boundary")
                    why = None
                    break
            if why is None:
                break
    if why:
        ctx.violations.append({"what": "container does not follow the documented time/memory model: " + why, "layer": "C05",
                               "case": case_json(case), "sig": {"clause": "profile"}})
    else:
        ctx.coverage["distinct_nontrivial"] += 1 if nseg >= 1 and spec["end"] > 1 else 0
    if len(ctx.coverage["samples"]) < 2:
        ctx.coverage["samples"].append({"case": case_json(case), "documented": {k: spec[k] for k in ("end", "success", "completed", "ticks")}})


def law_grid(ctx, drv):
    """the scaling laws themselves: Segment.get_cpu_time against the model on the (law, cpus 1..128) grid"""
    from eudoxia.workload.pipeline import Segment
    for tps in (1, 16, 1024):
        q, g = quantum(tps)
        drv.send("reset"); drv.send(f"cfg {tps} {q} {g} 1 0 1 1 {q}")
        for law in LAWS:
            for c in range(1, 129):
                for base in (F(1, 2), F(3), F(40), F(1000, 64)):
                    k, safe = exact_cpu_ticks(base, law, c, tps)
                    if not safe:
                        ctx.sit("grid_discard_float_unsafe")
                        continue
                    m = drv.send(f"cputicks {law} {base.numerator} {base.denominator} {c}")["ticks"]
                    if m is None:
                        ctx.sit("grid_log_undecided")
                        continue
                    seg = Segment(baseline_cpu_seconds=float(base), cpu_scaling=law, storage_read_gb=0)
                    i = int(seg.get_cpu_time(c) / (1.0 / tps))
                    ctx.coverage["evaluations"] += 1
                    ctx.sit("grid_points")
                    if i != m:
                        ctx.violations.append({"what": f"CPU ticks of law {law} with {c} cpus, baseline {float(base)} s at {tps} ticks/s: {i}, documented {m}",
                                               "layer": "C05", "grid": [law, c, fstr(base), tps], "sig": {"clause": "law"}})
                        return


def law_grid_fractional(ctx):
    """the same laws for fractional CPU allocations (1.5, 2.5, 3.75 ... CPUs are legal).  The Lean model counts CPUs in whole numbers, so this part is a
    test against the documented formulas evaluated in floating point, away from tick boundaries -- a search for failing inputs, not part of the tie"""
    import math
    from eudoxia.workload.pipeline import Segment
    doc = {"const": lambda c: 1.0, "log": lambda c: math.log(c) + 1, "sqrt": lambda c: math.sqrt(c), "linear3": lambda c: c if c < 3 else 3.0,
           "linear7": lambda c: c if c < 7 else 7.0, "squared": lambda c: c * c, "exp": lambda c: 2.0 ** c if c < 4 else 16.0}
    for tps in (1, 16, 1000):
        for law in LAWS:
            for c in (0.5, 0.75, 1.25, 1.5, 2.5, 2.75, 3.5, 3.75, 4.5, 6.5, 6.75, 7.5, 12.5):
                for base in (0.5, 3.0, 40.0, 977.0):
                    v = base / doc[law](c) * tps
                    if abs(v - round(v)) < 1e-6 * max(1.0, v):
                        continue
                    seg = Segment(baseline_cpu_seconds=base, cpu_scaling=law, storage_read_gb=0)
                    i = int(seg.get_cpu_time(c) / (1.0 / tps))
                    ctx.coverage["evaluations"] += 1
                    ctx.sit("grid_points_fractional_cpus")
                    if i != math.floor(v):
                        ctx.violations.append({"what": f"CPU ticks of law {law} with {c} cpus, baseline {base} s at {tps} ticks/s: {i}, the documented formula gives {math.floor(v)}",
                                               "layer": "C05", "grid_fractional": [law, c, base, tps], "sig": {"clause": "law"}})
                        return


def oom_with_a_neighbour(ctx):
    """the OOM of a container does not depend on its neighbours: container A steps from 5 to 15 GB (limit 12) in the very tick in which container B, next to it
    in the pool, ends and gives 10 GB back -- the pool's total does not move, A fails all the same, in exactly that tick, its earlier operator completed"""
    from eudoxia.executor import Executor
    from eudoxia.executor.assignment import Assignment
    from eudoxia.workload.pipeline import Segment, Pipeline
    from eudoxia.workload import OperatorState as S
    from eudoxia.utils import Priority
    rng = random.Random(ctx.seed + 61)
    for case in range(4 if ctx.quick() else 20):
        tps, k = rng.choice([1, 2, 4]), rng.randint(1, 3)
        over = case % 2 == 1
        ex = Executor(1, 8, 64, tps, multi_operator_containers=True, allow_memory_overcommit=over)
        pa, pb = Pipeline("a", Priority.BATCH_PIPELINE), Pipeline("b", Priority.BATCH_PIPELINE)
        a1 = pa.new_operator(None)
        a1.add_segment(Segment(baseline_cpu_seconds=k / tps, cpu_scaling="const", memory_gb=5, storage_read_gb=0))
        a2 = pa.new_operator([a1])
        a2.add_segment(Segment(baseline_cpu_seconds=4 / tps, cpu_scaling="const", memory_gb=15, storage_read_gb=0))
        b1 = pb.new_operator(None)
        b1.add_segment(Segment(baseline_cpu_seconds=(k + 1) / tps, cpu_scaling="const", memory_gb=10, storage_read_gb=0))
        asg = [Assignment([a1, a2], 1, 12, pa.priority, 0, "a"), Assignment([b1], 1, 12, pb.priority, 0, "b")]
        if case % 4 >= 2:
            asg.reverse()
        failed_at = None
        for t in range(1, k + 8):
            res = ex.run_one_tick([], asg if t == 1 else [])
            for r in res:
                if r.failed() and a1 in r.ops:
                    failed_at = t
            if failed_at:
                break
        ctx.coverage["evaluations"] += 1
        ctx.sit("oom_with_a_neighbour_runs")
        states = (a1.state(), a2.state())
        if failed_at != k + 1 or states != (S.COMPLETED, S.FAILED):
            ctx.violations.append({"what": f"container A (operators of {k} ticks at 5 GB, then 15 GB; limit 12 GB) next to a container that ends in tick {k + 1} and frees "
                                           f"10 GB ({tps} ticks/s, overcommit {over}): A must fail with OOM in tick {k + 1} with its first operator completed; observed: "
                                           f"failure in tick {failed_at}, operator states {[x.name for x in states]}", "layer": "E",
                                   "case": {"tps": tps, "k": k, "over": over}, "sig": {"clause": "oom-first-excess-neighbour"}})
            return
        ctx.coverage["distinct_nontrivial"] += 1


def run(ctx):
    drv = Driver()
    try:
        law_grid(ctx, drv)
        law_grid_fractional(ctx)
        oom_with_a_neighbour(ctx)
        rng = random.Random(ctx.seed)
        n = 2500 if ctx.quick() else 25000
        for i in range(n):
            if len(ctx.violations) >= 3:
                break
            one_case(ctx, drv, gen_case(rng, lattice=(i % 3 != 2)))
    finally:
        drv.close()
    ctx.coverage["rule"] = ("single containers alone in a large pool; 1-4 operators x 1-3 segments, seven laws, allocations around the peak; "
                            "binary-exact lattice (exact comparison) and decimal tick rates (either side accepted only at flagged float boundaries); "
                            "non-trivial = runs for more than one tick")


def replay(ctx, rep):
    drv = Driver()
    try:
        if "case" in rep:
            one_case(ctx, drv, case_from_json(rep["case"]))
        elif "grid_fractional" in rep:
            law_grid_fractional(ctx)
        else:
            law_grid(ctx, drv)
    finally:
        drv.close()
