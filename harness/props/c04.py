"""C04 - memory limits hold after every tick; reported usage is the real usage"""
import elayer
from props.ecommon import mix

PROJ = {"pool": ["cons", "capr"], "A": [0, 2, 3], "K": True, "res": [0, 1]}


def run(ctx):
    k = 1 if ctx.quick() else 8
    elayer.run_scenarios(ctx, "C04", mix(ctx, 80 * k, 40 * k, 0, 60 * k, 0, bias={"unknown_pool": 0, "zero_frac": 0}), PROJ)


def replay(ctx, rep):
    elayer.replay_scenario(ctx, "C04", rep, PROJ)
