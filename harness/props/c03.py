"""C03 - pool CPU and RAM are conserved"""
import elayer
from props.ecommon import mix

PROJ = {"pool": ["ac", "ar", "capc", "capr"], "A": [0, 1, 2], "S": [0, 1, 2], "D": True}


def run(ctx):
    k = 1 if ctx.quick() else 8
    elayer.run_scenarios(ctx, "C03", mix(ctx, 60 * k, 50 * k, 40 * k, 20 * k, 0), PROJ)


def replay(ctx, rep):
    elayer.replay_scenario(ctx, "C03", rep, PROJ)
