"""C03 - pool CPU and RAM are conserved"""
import elayer
from props.ecommon import mix

PROJ = {"pool": ["ac", "ar", "capc", "capr"], "A": [0, 1, 2], "S": [0, 1, 2], "D": True}


def fractional_amounts(ctx):
    """CPU amounts need not be whole numbers (an external scheduler may ask for 1.5 CPUs).  The model counts whole CPUs, so this is checked against the
    property's own equation instead: at every tick boundary free + running + suspending = capacity for CPU and RAM (binary fractions: exact in floats),
    and everything is free again when everything has ended"""
    import random
    from fractions import Fraction as F
    from eudoxia.executor import Executor
    from eudoxia.executor.assignment import Assignment, Suspend
    from eudoxia.workload.pipeline import Pipeline, Segment
    from eudoxia.utils import Priority
    rng = random.Random(ctx.seed + 77)
    for case in range(6 if ctx.quick() else 60):
        tps = rng.choice([1, 2, 4])
        ex = Executor(1, 8, 64, tps, allow_memory_overcommit=False, multi_operator_containers=True)
        pool = ex.pools[0]
        pipes = []
        for i in range(rng.randint(1, 3)):
            pl = Pipeline(f"f{i}", Priority.BATCH_PIPELINE)
            prev = None
            for _ in range(rng.randint(1, 3)):
                prev = pl.new_operator([prev] if prev else None)
                prev.add_segment(Segment(baseline_cpu_seconds=rng.randint(1, 4) / tps, cpu_scaling="const", memory_gb=0.25, storage_read_gb=0))
            pl.runtime_status()
            pipes.append(pl)
        cpus_asked = [rng.choice([0.5, 1.5, 1.25, 2.75, 1]) for _ in pipes]
        if sum(cpus_asked) > 8:          # three times 2.75 CPUs would oversell the 8-CPU pool: the executor rightly refuses such a batch (that case is run below)
            cpus_asked[-1] = 1
        asg = [Assignment(list(pl.values), c, rng.choice([2.5, 4.25, 8]), pl.priority, 0, pl.pipeline_id) for pl, c in zip(pipes, cpus_asked)]
        sus = []
        for t in range(40):
            ex.run_one_tick(sus, asg if t == 0 else [])
            sus = [Suspend(c.container_id, 0) for c in pool.active_containers if c.can_suspend_container() and rng.random() < 0.3]
            held = sum(c.assignment.cpu for c in pool.active_containers + pool.suspending_containers)
            heldr = sum(c.assignment.ram for c in pool.active_containers + pool.suspending_containers)
            ctx.coverage["evaluations"] += 1
            if pool.avail_cpu_pool + held != pool.max_cpu_pool or pool.avail_ram_pool + heldr != pool.max_ram_pool:
                ctx.sit("mismatch_fractional_conservation")
                ctx.violations.append({"what": f"containers with fractional amounts {[(a.cpu, a.ram) for a in asg]} at {tps} ticks/s: after tick {t} the pool has "
                                               f"{pool.avail_cpu_pool} CPUs / {pool.avail_ram_pool} GB free and {held} CPUs / {heldr} GB allocated to running and suspending "
                                               f"containers, of {pool.max_cpu_pool} CPUs / {pool.max_ram_pool} GB", "layer": "E",
                                       "case": {"tps": tps, "amounts": [(a.cpu, a.ram) for a in asg], "tick": t}, "sig": {"clause": "conserved-fractional"}})
                return
        ctx.sit("fractional_amount_runs")
        # an overselling batch of fractional amounts (each fits, together they do not; the integer parts would fit) is refused as a whole
        ex = Executor(1, rng.choice([1, 2, 3]), 64, tps, allow_memory_overcommit=False, multi_operator_containers=True)
        pool = ex.pools[0]
        cap = pool.max_cpu_pool
        amounts = [cap - 0.25, 0.75] if rng.random() < 0.5 else [0.75] * (int(cap / 0.75) + 1)
        batch = []
        for i, cpu in enumerate(amounts):
            pl = Pipeline(f"o{i}", Priority.BATCH_PIPELINE)
            op = pl.new_operator(None)
            op.add_segment(Segment(baseline_cpu_seconds=2 / tps, cpu_scaling="const", memory_gb=0.25, storage_read_gb=0))
            pl.runtime_status()
            batch.append(Assignment([op], cpu, 1, pl.priority, 0, pl.pipeline_id))
        refused = False
        try:
            ex.run_one_tick([], batch)
        except BaseException:
            refused = True
        ctx.coverage["evaluations"] += 1
        ctx.sit("fractional_oversell_batches")
        if not refused or pool.avail_cpu_pool != cap or pool.active_containers:
            ctx.violations.append({"what": f"a batch of containers asking for {amounts} CPUs on a pool with {cap} free CPUs (together {sum(amounts)}) is "
                                           f"{'accepted' if not refused else 'refused but leaves traces'}: {len(pool.active_containers)} containers started, "
                                           f"{pool.avail_cpu_pool} CPUs free", "layer": "E", "case": {"tps": tps, "cpus": cap, "amounts": amounts},
                                   "sig": {"clause": "oversell-fractional"}})
            return


def run(ctx):
    k = 1 if ctx.quick() else 8
    elayer.run_scenarios(ctx, "C03", mix(ctx, 60 * k, 50 * k, 40 * k, 20 * k, 0), PROJ)
    fractional_amounts(ctx)


def replay(ctx, rep):
    elayer.replay_scenario(ctx, "C03", rep, PROJ)
