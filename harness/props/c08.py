import slayer
from props.scommon import scen, preempt_scenario, pp_exact_fit_scenario, join_scenario, resume_elsewhere_scenario, own_and_pool_oom_scenario, ram_gone_cpus_left_scenario
"""C08 - valid configurations run to the end; shipped schedulers decide admissibly"""
from layer_s import ALGOS


def classify(sig, sc, obs):
    return sig


def scenarios(ctx, n):
    yield from scen(ctx, ALGOS, n, zero_frac=0.15, pp_multi_only=False)
    s = ctx.seed * 7919
    for i in range(n // 5):
        yield preempt_scenario(s + i)
    for i in range(n // 4):
        yield pp_exact_fit_scenario(s + i)
    for i in range(max(12, n // 8)):
        yield join_scenario(s + i, ["priority", "naive", "overbook", "template"][i % 4])
    for i in range(max(6, n // 16)):
        yield resume_elsewhere_scenario(s + i)
    for i in range(max(6, n // 16)):
        yield own_and_pool_oom_scenario(s + i)
    for i in range(max(4, n // 30)):
        yield ram_gone_cpus_left_scenario(s + i)


def one_simulator_run(ctx, params, algo, spec=None):
    """run_simulator on one parameter set (a recorded case); `spec`: a hand-built DAG workload"""
    import logging, sys, traceback
    from common import REPO
    logging.disable(logging.CRITICAL)
    if REPO not in sys.path:
        sys.path.insert(0, REPO)
    from eudoxia.simulator import run_simulator
    from layer_s import template_scheduler
    p = dict(params)
    p["scheduler_algo"] = template_scheduler() if algo == "template" else algo
    ctx.coverage["evaluations"] += 1
    try:
        if spec is not None:
            import det_run
            run_simulator(p, workload=det_run.fixed_workload(spec))
        else:
            run_simulator(p)
        ctx.coverage["distinct_nontrivial"] += 1
    except BaseException as e:
        tb = traceback.extract_tb(e.__traceback__)
        where = next((f"{fr.name}" for fr in reversed(tb) if "eudoxia" in fr.filename), "?")
        sig = {"clause": "run_simulator-raised", "exception": type(e).__name__, "where": where}
        ctx.violations.append({"what": f"run_simulator raised {type(e).__name__}: {str(e)[:120]} (in {where}) for a valid configuration", "layer": "M",
                               **({"dag_case": {"spec": spec, "params": {**params, "scheduler_algo": algo}}} if spec is not None else {"params": {**params, "scheduler_algo": algo}}),
                               "sig": sig})


def simulator_runs(ctx, n):
    """the whole `run_simulator` path (parameter validation, generated workload, end-of-run aggregation) over random valid
    configurations, also at decimal tick rates and with durations below one tick: it must return statistics"""
    import logging, random, sys, traceback
    from common import REPO, known_match
    logging.disable(logging.CRITICAL)
    if REPO not in sys.path:
        sys.path.insert(0, REPO)
    from eudoxia.simulator import run_simulator
    from layer_s import template_scheduler
    rng = random.Random(ctx.seed + 99)
    for i in range(n):
        algo = rng.choice(["naive", "priority", "priority-pool", "overbook", "template"])
        tps = rng.choice([1, 3, 10, 100, 1000, 100000]) if i % 3 else rng.choice([1, 10])
        probs = rng.choice([(0.3, 0.1, 0.6), (0.0, 0.0, 1.0), (1.0, 0.0, 0.0), (0.0, 1.0, 0.0), (0.25, 0.25, 0.5)])
        if i % 4 == 1:
            # any two-decimal triple that sums to one the way the parameter check adds it up (left to right, in floats)
            while True:
                a = rng.randint(0, 100)
                b = rng.randint(0, 100 - a)
                probs = (a / 100, b / 100, (100 - a - b) / 100)
                if probs[0] + probs[1] + probs[2] == 1:
                    break
        elif i % 4 == 3:
            probs = (0.01, 0.29, 0.7)      # adds up to exactly 1.0 in floats only because two rounding errors cancel
        dur = rng.choice([0.0004, 0.5, 1, 3, 10]) if tps >= 1000 else rng.choice([0.5, 1, 5, 30, 60])
        params = {"duration": dur, "ticks_per_second": tps, "waiting_seconds_mean": rng.choice([0.0004, 0.2, 1.0, 5.0]),
                  "num_pipelines": rng.randint(1, 4), "num_operators": rng.choice([1, 3, 5]), "interactive_prob": probs[0], "query_prob": probs[1],
                  "batch_prob": probs[2], "cpu_io_ratio": rng.choice([0.0, 0.5, 1.0]),
                  "scheduler_algo": template_scheduler() if algo == "template" else algo,
                  "num_pools": 2 if algo == "priority-pool" else rng.choice([1, 2, 4]), "cpus_per_pool": rng.choice([1, 4, 64]),
                  "ram_gb_per_pool": rng.choice([0.5, 8, 64, 256]), "multi_operator_containers": True if algo == "priority-pool" else rng.random() < 0.5,
                  "allow_memory_overcommit": algo == "overbook", "random_seed": rng.randint(0, 10 ** 6)}
        if int(dur * tps) > 60000:
            params["duration"] = 60000 / tps
        ctx.coverage["evaluations"] += 1
        ctx.sit("run_simulator_calls")
        try:
            st = run_simulator(params)
            if st.containers_completed == 0 and st.failures == 0:
                ctx.sit("runs_in_which_no_container_finished")
            ctx.coverage["distinct_nontrivial"] += 1
        except BaseException as e:
            tb = traceback.extract_tb(e.__traceback__)
            where = next((f"{fr.name}" for fr in reversed(tb) if "eudoxia" in fr.filename), "?")
            sig = {"clause": "run_simulator-raised", "exception": type(e).__name__, "where": where}
            v = {"what": f"run_simulator raised {type(e).__name__}: {str(e)[:120]} (in {where}) for a valid configuration", "layer": "M",
                 "params": {**params, "scheduler_algo": algo}, "sig": sig}
            if known_match("C08", v) or sum(1 for x in ctx.violations if x["sig"] == sig) < 1:
                if not any(x["sig"] == sig for x in ctx.violations):
                    ctx.violations.append(v)


def dag_simulator_runs(ctx, n):
    """the same whole path on hand-built DAG workloads (forks with equal branches, diamonds, several roots and sinks): branches of one pipeline run side by side
    in separate containers and end in the same tick -- the main loop's bookkeeping must cope"""
    import logging, random, sys, traceback
    from common import REPO, known_match
    logging.disable(logging.CRITICAL)
    if REPO not in sys.path:
        sys.path.insert(0, REPO)
    from eudoxia.simulator import run_simulator
    from layer_s import template_scheduler
    import det_run
    rng = random.Random(ctx.seed + 131)
    for i in range(n):
        algo = ["priority", "overbook", "naive", "template", "priority-pool"][i % 5]
        tps = rng.choice([1, 2, 4])
        pipes = []
        for _ in range(rng.randint(1, 3)):
            k = rng.randint(1, 3)                     # ticks of the equal branches
            shape = rng.choice(["fork", "fork", "diamond", "roots"])
            if shape == "fork":
                ops = [{"parents": [], "ticks": rng.randint(1, 2), "mem": 0.5}] + [{"parents": [0], "ticks": k, "mem": 0.5} for _ in range(rng.randint(2, 3))]
            elif shape == "diamond":
                ops = [{"parents": [], "ticks": 1, "mem": 0.5}, {"parents": [0], "ticks": k, "mem": 0.5}, {"parents": [0], "ticks": k, "mem": 0.5},
                       {"parents": [1, 2], "ticks": 1, "mem": 0.5}]
            else:
                ops = [{"parents": [], "ticks": k, "mem": 0.5} for _ in range(rng.randint(2, 3))]
            pipes.append({"prio": rng.choice([1, 2, 3]), "ops": ops})
        nticks = 40
        arrivals = [[] for _ in range(nticks)]
        for j in range(len(pipes)):
            arrivals[rng.randint(0, 3)].append(j)
        spec = {"pipes": pipes, "arrivals": arrivals, "tps": tps}
        params = {"duration": nticks / tps, "ticks_per_second": tps, "scheduler_algo": template_scheduler() if algo == "template" else algo,
                  "num_pools": 2, "cpus_per_pool": 16, "ram_gb_per_pool": 64,
                  "multi_operator_containers": True if algo == "priority-pool" else (False if algo in ("priority", "overbook") and i % 2 == 0 else rng.random() < 0.5),
                  "allow_memory_overcommit": algo == "overbook"}
        ctx.coverage["evaluations"] += 1
        ctx.sit("run_simulator_calls_on_dag_workloads")
        try:
            st = run_simulator(params, workload=det_run.fixed_workload(spec))
            if st.pipelines_all.completion_count == len(pipes):
                ctx.coverage["distinct_nontrivial"] += 1
        except BaseException as e:
            tb = traceback.extract_tb(e.__traceback__)
            where = next((f"{fr.name}" for fr in reversed(tb) if "eudoxia" in fr.filename), "?")
            sig = {"clause": "run_simulator-raised", "exception": type(e).__name__, "where": where}
            v = {"what": f"run_simulator raised {type(e).__name__}: {str(e)[:120]} (in {where}) on a DAG workload ({algo}, "
                         f"multi_operator_containers={params['multi_operator_containers']})", "layer": "M",
                 "dag_case": {"spec": spec, "params": {**params, "scheduler_algo": algo}}, "sig": sig}
            if not any(x["sig"] == sig for x in ctx.violations):
                ctx.violations.append(v)


def run(ctx):
    n = 150 if ctx.quick() else 1500
    slayer.run_scenarios_s(ctx, "C08", scenarios(ctx, n), classify=classify)
    simulator_runs(ctx, 40 if ctx.quick() else 600)
    dag_simulator_runs(ctx, 20 if ctx.quick() else 200)


def replay(ctx, rep):
    if "dag_case" in rep:
        d = rep["dag_case"]
        one_simulator_run(ctx, {k: v for k, v in d["params"].items() if k != "scheduler_algo"}, d["params"]["scheduler_algo"], spec=d["spec"])
    elif "params" in rep:
        one_simulator_run(ctx, {k: v for k, v in rep["params"].items() if k != "scheduler_algo"}, rep["params"]["scheduler_algo"])
    else:
        slayer.replay_s(ctx, "C08", rep)
