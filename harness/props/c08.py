import slayer
from props.scommon import scen, preempt_scenario
"""C08 - valid configurations run to the end; shipped schedulers decide admissibly"""
from layer_s import ALGOS


def classify(sig, sc, obs):
    return sig


def scenarios(ctx, n):
    yield from scen(ctx, ALGOS, n, zero_frac=0.15)
    s = ctx.seed * 7919
    for i in range(n // 5):
        yield preempt_scenario(s + i)


def run(ctx):
    n = 150 if ctx.quick() else 1500
    slayer.run_scenarios_s(ctx, "C08", scenarios(ctx, n), classify=classify)


def replay(ctx, rep):
    slayer.replay_s(ctx, "C08", rep)
