"""C07 - runs are reproducible and every policy is evaluated on the same workload  (partial: the decisive part is the tie)"""
import json, os, random, subprocess, sys
from common import PY, VERIF, sh
import det_run


def child(spec, hashseed):
    env = dict(os.environ, PYTHONHASHSEED=str(hashseed), EUDOXIA_REPO=os.environ.get("EUDOXIA_REPO", "/repo"))
    p = subprocess.run([PY, os.path.join(VERIF, "harness", "det_run.py"), json.dumps(spec)], capture_output=True, text=True, env=env, timeout=600)
    if p.returncode != 0:
        raise RuntimeError("child failed: " + p.stderr[-600:])
    return json.loads(p.stdout.strip().splitlines()[-1])


def viol(ctx, clause, what, case):
    ctx.sit("mismatch_" + clause)
    if sum(1 for v in ctx.violations if v["sig"]["clause"] == clause) < 2:
        ctx.violations.append({"what": what, "layer": "M", "case": case, "sig": {"clause": clause}})


def first_diff(a, b):
    for t, (x, y) in enumerate(zip(a["log"], b["log"])):
        if x != y:
            kind = ["arrivals", "assignments", "suspensions", "results"][next(i for i in range(4) if x[i] != y[i])]
            return f"tick {t}: {kind} differ"
    return "statistics differ" if a["stats"] != b["stats"] else "length differs"


def arrivals_only(params):
    """the workload a parameter set generates, canonicalised (no scheduler, no executor)"""
    from eudoxia.simulator import parse_args_with_defaults
    from eudoxia.workload import WorkloadGenerator
    g = WorkloadGenerator(**parse_args_with_defaults(dict(params)))
    out = []
    for _ in range(int(params["duration"] * params["ticks_per_second"])):
        out.append([[p.priority.value, [[s.baseline_cpu_seconds, s.scaling_func.__name__, s.memory_gb, s.storage_read_gb] for o in p.values for s in o.get_segments()]]
                    for p in g.run_one_tick()])
    return out


def seed_sweep(ctx, rng):
    """same parameters and seed -> same workload, for a sweep of seeds that includes 0 and other 'falsy-looking' values"""
    base = {"duration": 30, "ticks_per_second": 10, "waiting_seconds_mean": 0.5, "num_pipelines": 2, "num_operators": 3}
    # also seeds beyond 32 and 64 bits (numpy takes any non-negative integer): 7 and 7 + 2**32 are different seeds
    seeds = [0, 1, 2, 7, 42, 2 ** 31 - 1, 2 ** 32, 7 + 2 ** 32, 1 + 2 ** 64] + [rng.randint(0, 10 ** 9) for _ in range(2 if ctx.quick() else 20)]
    seen = {}
    for sd in seeds:
        params = {**base, "random_seed": sd}
        a, b = arrivals_only(params), arrivals_only(params)
        ctx.coverage["evaluations"] += 2
        ctx.sit("seed_sweep_seed_zero" if sd == 0 else "seed_sweep")
        if a != b:
            viol(ctx, "not-reproducible", f"random_seed={sd}: two generators with identical parameters emit different workloads", {"params": params})
        else:
            ctx.coverage["distinct_nontrivial"] += 1
        key = json.dumps(a)
        if key in seen and seen[key] != sd:
            viol(ctx, "seed-ignored", f"seeds {seen[key]} and {sd} give the same workload", {"params": params})
        seen[key] = sd


def settings_sweep(ctx, rng):
    """the generated workload does not depend on any scheduler or executor setting (small and large pools, pool counts, container mode, overcommit, policy)"""
    base = {"duration": 40, "ticks_per_second": 10, "waiting_seconds_mean": 0.5, "num_pipelines": 3, "num_operators": 4, "random_seed": rng.randint(0, 10 ** 6)}
    ref = None
    for ram in (1, 4, 16, 40, 64, 256):
        for extra in ({"cpus_per_pool": 1, "num_pools": 1, "multi_operator_containers": True, "allow_memory_overcommit": False, "scheduler_algo": "naive"},
                      {"cpus_per_pool": 64, "num_pools": 4, "multi_operator_containers": False, "allow_memory_overcommit": True, "scheduler_algo": "overbook"}):
            params = {**base, "ram_gb_per_pool": ram, **extra}
            a = arrivals_only(params)
            ctx.coverage["evaluations"] += 1
            ctx.sit("settings_sweep")
            if ref is None:
                ref = (a, params)
            elif a != ref[0]:
                return viol(ctx, "workload-depends-on-policy", f"the generated workload changes with executor / scheduler settings (ram_gb_per_pool={ram}, {extra})",
                            {"params": params, "other": ref[1]})
    ctx.coverage["distinct_nontrivial"] += 1


def dag_order_runs(ctx, rng):
    """hand-built DAG workloads (several operators ready at once, several pipelines per tick) in both container modes: two runs in this process and one in a
    fresh interpreter with another hash seed must give the same event log (pipeline / operator / container identifiers are random or process-global and
    must not influence any decision)"""
    for i in range(3 if ctx.quick() else 20):
        tps = rng.choice([1, 2, 4])
        pipes = []
        for _ in range(rng.randint(2, 4)):
            n = rng.randint(3, 6)
            ops = []
            for k in range(n):
                # wide DAGs: many operators share a parent, so that several become ready in the same round
                par = [] if k == 0 or rng.random() < 0.2 else [rng.randint(0, max(0, k // 2))]
                ops.append({"parents": par, "ticks": rng.randint(1, 3), "mem": 0.5})
            pipes.append({"prio": rng.choice([1, 2, 3]), "ops": ops})
        arrivals = [[] for _ in range(30)]
        for k in range(len(pipes)):
            arrivals[rng.randint(0, 3)].append(k)
        algo = ["priority", "naive", "overbook", "priority"][i % 4]
        params = {"duration": 30 / tps, "ticks_per_second": tps, "num_pools": rng.choice([1, 2, 3]), "cpus_per_pool": rng.choice([4, 16]), "ram_gb_per_pool": 64,
                  "multi_operator_containers": False if i % 2 == 0 else True, "allow_memory_overcommit": algo == "overbook"}
        wl = {"pipes": pipes, "arrivals": arrivals, "tps": tps}
        spec = {"params": params, "algo": algo, "workload": wl}
        a = det_run.canonical(params, algo, workload=wl)
        b = det_run.canonical(params, algo, workload=wl)
        c = child(spec, rng.randint(1, 10 ** 6))
        ctx.coverage["evaluations"] += 3
        ctx.sit("dag_workload_runs_" + ("single_op" if not params["multi_operator_containers"] else "multi_op"))
        for name, other in (("a second run in the same process", b), ("a fresh interpreter with another PYTHONHASHSEED", c)):
            if other != a:
                viol(ctx, "not-reproducible", f"a DAG workload gives a different run in {name} ({algo}, multi={params['multi_operator_containers']}): {first_diff(a, other)}",
                     {"params": params, "algo": algo, "workload": wl})
                break
        else:
            ctx.coverage["distinct_nontrivial"] += 1


def failed_and_ready_together(ctx, rng):
    """single-operator containers, a pipeline r -> {b1, b2}, b2 -> c: b1 is killed for memory in the very tick b2 completes, so the next round finds a FAILED
    operator (to retry) and a PENDING one (newly ready) in the same pipeline.  Which comes first must not depend on the interpreter's hash seed: the same run
    under PYTHONHASHSEED 0, 2 and 7 (the three orders a two-element set of enum members takes)"""
    for i in range(2 if ctx.quick() else 8):
        tps = rng.choice([1, 2])
        algo = ["priority", "overbook"][i % 2]
        pipes = [{"prio": rng.choice([2, 3]), "ops": [{"parents": [], "ticks": 1, "mem": 0.5}, {"parents": [0], "ticks": 3, "mem": 150 if algo == "overbook" else 40},
                                                       {"parents": [0], "ticks": 1, "mem": 0.5}, {"parents": [2], "ticks": 2, "mem": 0.5},
                                                       {"parents": [0], "ticks": 1, "mem": 0.5}, {"parents": [4], "ticks": 1, "mem": 0.5}]},
                 {"prio": 3, "ops": [{"parents": [], "ticks": 4, "mem": 0.5}]}]
        arrivals = [[] for _ in range(30)]
        arrivals[0] = [0]
        arrivals[rng.randint(0, 2)].append(1)
        params = {"duration": 30 / tps, "ticks_per_second": tps, "num_pools": 2, "cpus_per_pool": rng.choice([4, 16]), "ram_gb_per_pool": rng.choice([64, 100]),
                  "multi_operator_containers": False, "allow_memory_overcommit": algo == "overbook"}
        wl = {"pipes": pipes, "arrivals": arrivals, "tps": tps}
        spec = {"params": params, "algo": algo, "workload": wl}
        runs = [child(spec, h) for h in (0, 2, 7)]
        ctx.coverage["evaluations"] += 3
        ctx.sit("failed_and_newly_ready_operator_in_one_round")
        for h, other in zip((2, 7), runs[1:]):
            if other != runs[0]:
                viol(ctx, "not-reproducible", f"a run in which an operator fails in the tick its sibling completes differs between PYTHONHASHSEED=0 and "
                                              f"PYTHONHASHSEED={h} ({algo}, single-operator containers): {first_diff(runs[0], other)}",
                     {"params": params, "algo": algo, "workload": wl})
                return
        ctx.coverage["distinct_nontrivial"] += 1


def tie_runs(ctx, rng):
    """a dozen identical containers on an overcommitted pool that runs out of memory: all OOM scores are exactly equal, so whatever breaks the tie decides who
    is killed.  The same run in this process (twice), in a fresh interpreter, and in interpreters that ran other simulations first (process-global counters,
    e.g. container numbers, at other offsets) must give the same event log"""
    for i in range(2 if ctx.quick() else 8):
        tps = rng.choice([1, 2])
        k = rng.randint(11, 14)
        pipes = [{"prio": 3, "ops": [{"parents": [], "ticks": 2, "mem": None, "read": 60}]} for _ in range(k)]
        arrivals = [[] for _ in range(12 * tps)]
        arrivals[0] = list(range(k))
        params = {"duration": 12, "ticks_per_second": tps, "num_pools": 1, "cpus_per_pool": 16, "ram_gb_per_pool": rng.choice([64, 128]),
                  "multi_operator_containers": rng.random() < 0.5, "allow_memory_overcommit": True}
        wl = {"pipes": pipes, "arrivals": arrivals, "tps": tps}
        spec = {"params": params, "algo": "overbook", "workload": wl}
        a = det_run.canonical(params, "overbook", workload=wl)
        runs = [("a second run in the same process", det_run.canonical(params, "overbook", workload=wl)),
                ("a fresh interpreter", child(spec, 1)),
                ("an interpreter that ran other simulations first", child({**spec, "warmup": 1}, 2)),
                ("an interpreter that ran several other simulations first", child({**spec, "warmup": 3}, 3))]
        ctx.coverage["evaluations"] += 5
        ctx.sit("tied_oom_score_runs")
        nfail = sum(1 for t in a["log"] for r in t[3] if not r[-1]) if a["log"] and a["log"][0] and len(a["log"][0]) > 3 else 0
        for name, other in runs:
            if other != a:
                viol(ctx, "not-reproducible", f"identical containers, tied OOM scores: a different run in {name}: {first_diff(a, other)}",
                     {"params": params, "algo": "overbook", "workload": wl})
                break
        else:
            ctx.coverage["distinct_nontrivial"] += 1


def param_file_runs(ctx, rng):
    """`run_simulator(path)`: what the run does is what the file says *now* -- also when the same path was used for another run earlier in the process"""
    import tempfile
    from eudoxia.simulator import run_simulator
    with tempfile.TemporaryDirectory() as td:
        path = os.path.join(td, "params.toml")
        prev = None
        for k in range(3):
            params = {"duration": 10, "ticks_per_second": 10, "waiting_seconds_mean": 0.5, "num_pipelines": 2, "num_operators": 3, "num_pools": 2,
                      "cpus_per_pool": 4, "ram_gb_per_pool": 64, "random_seed": rng.randint(0, 10 ** 6), "scheduler_algo": ["naive", "priority", "naive"][k]}
            with open(path, "w") as f:
                for key, v in params.items():
                    f.write(f"{key} = {json.dumps(v)}\n")
            from_file = repr(run_simulator(path))
            from_dict = repr(run_simulator(dict(params)))
            ctx.coverage["evaluations"] += 2
            ctx.sit("parameter_file_runs")
            if from_file != from_dict:
                viol(ctx, "not-reproducible", f"run_simulator(<file>) after the file was rewritten (run {k + 1} on the same path) differs from run_simulator(<the same "
                                              f"parameters as a dict>)" + (": it equals the run of the file's previous contents" if from_file == prev else ""),
                     {"params": params, "run_on_same_path": k + 1})
                return
            prev = from_file
        ctx.coverage["distinct_nontrivial"] += 1


def generators_side_by_side(ctx, rng):
    """a generator's workload depends on its own parameters only: building and using another generator with other priority probabilities, another seed and
    another size in between changes nothing"""
    from eudoxia.workload import WorkloadGenerator
    from eudoxia.simulator import parse_args_with_defaults
    def emit(g, n):
        return [[(p.priority.name, len(list(p.values))) for p in g.run_one_tick()] for _ in range(n)]
    for case in range(3):
        pa = parse_args_with_defaults({"ticks_per_second": 10, "waiting_seconds_mean": 0.3, "num_pipelines": 3, "random_seed": rng.randint(0, 10 ** 6),
                                       "interactive_prob": 0.2, "query_prob": 0.2, "batch_prob": 0.6})
        pb = {**pa, "random_seed": pa["random_seed"] + 1, "interactive_prob": 0.0, "query_prob": 1.0, "batch_prob": 0.0, "num_pipelines": 2}
        alone = emit(WorkloadGenerator(**pa), 60)
        g1 = WorkloadGenerator(**pa)
        first = emit(g1, 20)
        g2 = WorkloadGenerator(**pb)
        emit(g2, 15)
        rest = emit(g1, 40)
        ctx.coverage["evaluations"] += 2
        ctx.sit("generators_side_by_side")
        if first + rest != alone:
            t = next(i for i, (x, y) in enumerate(zip(first + rest, alone)) if x != y)
            viol(ctx, "not-reproducible", f"a workload generator emits something else once a second generator with other priority probabilities exists: tick {t}: "
                                          f"{(first + rest)[t]} instead of {alone[t]}", {"params": pa, "other": pb})
            return
        ctx.coverage["distinct_nontrivial"] += 1


def hash_seed_sweep(ctx, rng):
    """every scheduler on three pools (two for priority-pool), the same configuration under four different PYTHONHASHSEEDs: anything that leans on the hash of
    a string, a uuid or an object id to order pools, pipelines or containers shows up as a different run"""
    for algo in ["naive", "priority", "priority-pool", "overbook", "template"]:
        params = {"duration": 20, "ticks_per_second": 10, "waiting_seconds_mean": 0.5, "num_pipelines": 3, "num_operators": rng.choice([3, 5]),
                  "cpu_io_ratio": 0.5, "num_pools": 2 if algo == "priority-pool" else 3, "cpus_per_pool": rng.choice([2, 4]), "ram_gb_per_pool": 64,
                  "multi_operator_containers": True if algo == "priority-pool" else rng.random() < 0.5, "allow_memory_overcommit": algo == "overbook",
                  "random_seed": rng.randint(0, 10 ** 6)}
        spec = {"params": params, "algo": algo}
        runs = [child(spec, h) for h in (0, 1, 2, 3)]
        ctx.coverage["evaluations"] += 4
        ctx.sit("hash_seed_sweeps")
        for h, other in enumerate(runs[1:], 1):
            if other != runs[0]:
                viol(ctx, "not-reproducible", f"the same parameters give a different run under PYTHONHASHSEED={h} than under PYTHONHASHSEED=0 ({algo}, "
                                              f"{params['num_pools']} pools): {first_diff(runs[0], other)}", {"params": params, "algo": algo})
                break
        else:
            ctx.coverage["distinct_nontrivial"] += 1


def run(ctx):
    rng = random.Random(ctx.seed)
    tie_runs(ctx, random.Random(ctx.seed + 29))
    hash_seed_sweep(ctx, random.Random(ctx.seed + 31))
    param_file_runs(ctx, random.Random(ctx.seed + 37))
    generators_side_by_side(ctx, random.Random(ctx.seed + 41))
    # "different seeds give different workloads" at the sensitivity-sample entry point: sample i is generated from seed start + i (the wiring check of C20)
    import tempfile
    from props import c20
    n0 = len(ctx.violations)
    with tempfile.TemporaryDirectory() as td:
        c20.check_seeds(ctx, random.Random(ctx.seed + 43), td, start=5, file_seed=99)
    for v in ctx.violations[n0:]:
        v["sig"] = {"clause": "seed-ignored"}
    seed_sweep(ctx, rng)
    settings_sweep(ctx, rng)
    dag_order_runs(ctx, rng)
    failed_and_ready_together(ctx, rng)
    n = 4 if ctx.quick() else 24
    for i in range(n):
        algo = ["priority", "naive", "priority-pool", "overbook", "template"][i % 5]
        params = {"duration": rng.choice([20, 60]), "ticks_per_second": rng.choice([10, 100]), "waiting_seconds_mean": rng.choice([0.5, 2.0]),
                  "num_pipelines": rng.randint(2, 4), "num_operators": rng.choice([3, 5]), "cpu_io_ratio": rng.choice([0.2, 0.5, 0.9]),
                  "num_pools": 2 if algo == "priority-pool" else rng.choice([1, 2, 3]), "cpus_per_pool": rng.choice([4, 16]), "ram_gb_per_pool": rng.choice([32, 64, 128]),
                  "multi_operator_containers": True if algo == "priority-pool" else rng.random() < 0.5, "allow_memory_overcommit": algo == "overbook",
                  "random_seed": 0 if i == 0 else rng.choice([1, 42, rng.randint(0, 10 ** 6)])}   # seed 0 is a seed like any other
        spec = {"params": params, "algo": algo}
        a = child(spec, 0)                                   # fresh interpreter
        b = child(spec, rng.randint(1, 10 ** 6))             # fresh interpreter, different hash seed
        c = child({**spec, "warmup": 3}, 12345)              # after other simulations in the same process (counters, registries advanced)
        d = det_run.canonical(params, algo)                  # in this (long-lived) process
        ctx.coverage["evaluations"] += 4
        ctx.sit(algo + "_configurations")
        case = {"params": params, "algo": algo}
        for name, other in (("a different PYTHONHASHSEED", b), ("a process that ran other simulations before", c), ("the long-lived harness process", d)):
            if other != a:
                viol(ctx, "not-reproducible", f"the same parameters give a different run in {name}: {first_diff(a, other)}", case)
        # the workload does not depend on scheduler or executor settings
        other_algo = "naive" if algo != "naive" else "priority"
        p2 = {**params, "num_pools": 2 if other_algo == "priority-pool" else params["num_pools"] + 1, "cpus_per_pool": params["cpus_per_pool"] * 2,
              "ram_gb_per_pool": 256, "multi_operator_containers": not params["multi_operator_containers"], "allow_memory_overcommit": False}
        e = det_run.canonical(p2, other_algo)
        ctx.coverage["evaluations"] += 1
        if [t[0] for t in e["log"]] != [t[0] for t in a["log"]]:
            viol(ctx, "workload-depends-on-policy", "the generated workload changed with scheduler / executor settings", {"params": params, "other": p2})
        # different seeds give different workloads
        f = det_run.canonical({**params, "random_seed": params["random_seed"] + 1}, algo)
        ctx.coverage["evaluations"] += 1
        if [t[0] for t in f["log"]] == [t[0] for t in a["log"]]:
            viol(ctx, "seed-ignored", "two different seeds gave the same workload", case)
        if a == b == c == d:
            ctx.coverage["distinct_nontrivial"] += 1
        if len(ctx.coverage["samples"]) < 1:
            ctx.coverage["samples"].append({"params": params, "algo": algo, "stats": a["stats"]["pipelines_all"], "first_tick": a["log"][0]})
    ctx.coverage["rule"] = ("each configuration is run in a fresh interpreter, in a fresh interpreter with another PYTHONHASHSEED, in an interpreter that ran other "
                            "simulations first, and in the long-lived harness process; canonicalised event logs (identifiers renumbered by first appearance) and statistics must be "
                            "identical; workload independence and seed sensitivity are compared on the arrival logs; non-trivial = a configuration on which all four executions agree")
    ctx.assumptions.append("PARTIAL: cross-process determinism is CPython runtime behaviour; the Lean theorems only state that the model is a function of its inputs; numpy's seeded streams are trusted")


def replay(ctx, rep):
    run(ctx)
