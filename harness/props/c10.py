"""C10 - suspension only between operators, lasts RAM/20 s, returns work intact"""
import elayer
from props.ecommon import mix

PROJ = {"st": True, "pool": ["ac", "ar"], "A": [0, 4, 5, 7], "S": [0, 1, 2, 3, 4, 5], "D": True, "res": [0, 1]}


def measured_writeout(ram, tps):
    """how many ticks a suspension of a `ram` GB container really lasts at `tps` ticks per second (real Executor, one pool, two short operators)"""
    import logging, sys
    from common import REPO
    logging.disable(logging.CRITICAL)
    if REPO not in sys.path:
        sys.path.insert(0, REPO)
    from eudoxia.executor.executor import Executor
    from eudoxia.executor.assignment import Assignment, Suspend
    from eudoxia.workload.pipeline import Pipeline, Segment
    from eudoxia.utils import Priority
    ex = Executor(num_pools=1, cpus_per_pool=4, ram_gb_per_pool=1024, ticks_per_second=tps, multi_operator_containers=True)
    pl = Pipeline("w", Priority.BATCH_PIPELINE)
    a = pl.new_operator(None)
    a.add_segment(Segment(baseline_cpu_seconds=1.0 / tps, cpu_scaling="const", memory_gb=0.001, storage_read_gb=0))
    b = pl.new_operator([a])
    b.add_segment(Segment(baseline_cpu_seconds=50.0 / tps, cpu_scaling="const", memory_gb=0.001, storage_read_gb=0))
    asg = Assignment(ops=[a, b], cpu=1, ram=ram, priority=Priority.BATCH_PIPELINE, pool_id=0, pipeline_id="w")
    ex.run_one_tick([], [asg])
    pool = ex.pools[0]
    for _ in range(6):
        if pool.active_containers and pool.active_containers[0].can_suspend_container():
            break
        ex.run_one_tick([], [])
    c = pool.active_containers[0]
    if not c.can_suspend_container():
        raise RuntimeError("harness: the container never reached an operator boundary")
    ex.run_one_tick([Suspend(c.container_id, 0)], [])
    n = 1
    while not pool.suspended_containers and n < 10 ** 6:
        ex.run_one_tick([], [])
        n += 1
    return n, pool.avail_ram_pool, [o.state().name for o in (a, b)]


def duration_grid(ctx):
    """the duration clause on decimal tick rates, where the lock-step (binary lattice) does not go: floor(ram/20 * tps), at least one tick, exactly"""
    import math, random
    from fractions import Fraction as F
    rng = random.Random(ctx.seed + 10)
    cases = [(6, 10), (12, 10), (7, 1000), (102, 10), (4, 10), (20, 10), (1, 100), (3, 7), (5, 3)]
    for _ in range(40 if ctx.quick() else 600):
        tps = rng.choice([1, 2, 3, 7, 10, 16, 50, 100, 1000])
        ram = rng.choice([rng.randint(1, 256), rng.randint(1, 64) * 2, rng.choice([0.5, 0.25, 1.5, 2.5, 10.75])])
        if F(ram) / 20 * tps <= 400:
            cases.append((ram, tps))
    for ram, tps in cases:
        exact = max(1, math.floor(F(ram) / 20 * tps))
        got, free, states = measured_writeout(ram, tps)
        ctx.coverage["evaluations"] += 1
        boundary = (F(ram) / 20 * tps).denominator == 1
        ctx.sit("writeout_exact_multiple_of_a_tick" if boundary else "writeout_between_ticks")
        if states != ["COMPLETED", "PENDING"] or free != 1024:
            ctx.sit("mismatch_work-returned-intact")
            if sum(1 for v in ctx.violations if v["sig"] == {"clause": "work-returned-intact"}) < 2:
                ctx.violations.append({"what": f"after the write-out of a {ram} GB container at {tps} ticks/s: operator states {states}, free RAM {free} of 1024", "layer": "E",
                                   "case": {"ram": ram, "tps": tps}, "sig": {"clause": "work-returned-intact"}})
        elif got != exact:
            floatrule = max(1, int(ram / 20 / (1.0 / tps)))
            sig = {"clause": "suspension-duration-float-quotient"} if (got == floatrule and boundary and got == exact - 1) else {"clause": "suspension-duration"}
            if sum(1 for v in ctx.violations if v["sig"] == sig) < 2:
                ctx.violations.append({"what": f"suspension of a {ram} GB container at {tps} ticks/s lasts {got} ticks; floor({ram}/20 x {tps}) = {exact}", "layer": "E",
                                       "case": {"ram": ram, "tps": tps, "ticks": got, "exact": exact}, "sig": sig})
            ctx.sit("mismatch_" + sig["clause"])
        else:
            ctx.coverage["distinct_nontrivial"] += 1


def run(ctx):
    k = 1 if ctx.quick() else 8
    duration_grid(ctx)
    elayer.run_scenarios(ctx, "C10", mix(ctx, 60 * k, 160 * k, 0, 10 * k, 0, bias={"unknown_pool": 0, "zero_frac": 0, "suspend": 0.7, "bad_suspend": 0.06}), PROJ)


def replay(ctx, rep):
    case = rep.get("case") or {}
    if "ram" in case and "tps" in case and "cfg" not in rep:
        # a duration case: re-measure it on the real executor
        import math
        from fractions import Fraction as F
        ram, tps = case["ram"], case["tps"]
        exact = max(1, math.floor(F(ram) / 20 * tps))
        got, free, states = measured_writeout(ram, tps)
        ctx.coverage["evaluations"] += 1
        if got != exact:
            floatrule = max(1, int(ram / 20 / (1.0 / tps)))
            boundary = (F(ram) / 20 * tps).denominator == 1
            sig = {"clause": "suspension-duration-float-quotient"} if (got == floatrule and boundary and got == exact - 1) else {"clause": "suspension-duration"}
            ctx.violations.append({"what": f"suspension of a {ram} GB container at {tps} ticks/s lasts {got} ticks; floor({ram}/20 x {tps}) = {exact}", "layer": "E",
                                   "case": {"ram": ram, "tps": tps, "ticks": got, "exact": exact}, "sig": sig})
        return
    elayer.replay_scenario(ctx, "C10", rep, PROJ)
