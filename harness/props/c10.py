"""C10 - suspension only between operators, lasts RAM/20 s, returns work intact"""
import elayer
from props.ecommon import mix

PROJ = {"st": True, "pool": ["ac", "ar"], "A": [0, 4, 5, 7], "S": [0, 1, 2, 3, 4, 5], "D": True, "res": [0, 1]}


def run(ctx):
    k = 1 if ctx.quick() else 8
    elayer.run_scenarios(ctx, "C10", mix(ctx, 60 * k, 160 * k, 0, 10 * k, 0, bias={"unknown_pool": 0, "zero_frac": 0, "suspend": 0.7, "bad_suspend": 0.06}), PROJ)


def replay(ctx, rep):
    elayer.replay_scenario(ctx, "C10", rep, PROJ)
