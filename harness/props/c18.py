import slayer
from props.scommon import scen, preempt_scenario
"""C18 - overbook: one operator and one CPU per container, full-pool RAM, CPU-bound"""


def run(ctx):
    n = 100 if ctx.quick() else 1000
    slayer.run_scenarios_s(ctx, "C18", scen(ctx, ["overbook"], n, contended=True))


def replay(ctx, rep):
    slayer.replay_s(ctx, "C18", rep)
