import slayer
from props.scommon import scen, preempt_scenario, overbook_parallel_roots_fail_scenario
"""C18 - overbook: one operator and one CPU per container, full-pool RAM, CPU-bound"""


def run(ctx):
    n = 100 if ctx.quick() else 1000
    def scenarios():
        yield from scen(ctx, ["overbook"], n, contended=True)
        for i in range(max(8, n // 12)):
            yield overbook_parallel_roots_fail_scenario(ctx.seed * 7919 + i)
    slayer.run_scenarios_s(ctx, "C18", scenarios())


def replay(ctx, rep):
    slayer.replay_s(ctx, "C18", rep)
