"""C06 - completion, latency and returned statistics match an independent recount"""
import io, json, math, random, sys
from fractions import Fraction as F
from common import Driver, REPO
import layer_m
from layer_s import template_scheduler
from props.c13 import csv_text


def viol(ctx, clause, what, case):
    ctx.sit("mismatch_" + clause)
    if sum(1 for v in ctx.violations if v["sig"]["clause"] == clause) < 2:
        ctx.violations.append({"what": what, "layer": "M", "case": case, "sig": {"clause": clause}})


def close(a, frac, scale):
    """float statistic against the exact fraction (num, den) / scale; None <-> NaN"""
    if frac is None:
        return isinstance(a, float) and math.isnan(a)
    want = F(frac[0], frac[1]) / scale
    return not (isinstance(a, float) and math.isnan(a)) and abs(a - float(want)) <= 1e-9 * max(1.0, abs(float(want)))


def compare(stats, m, params):
    tps, dur = params["ticks_per_second"], params["duration"]
    bad = []
    for name, got in (("created", stats.pipelines_created), ("containers_completed", stats.containers_completed), ("assignments", stats.assignments),
                      ("suspensions", stats.suspensions), ("failures", stats.failures)):
        if got != m[name]:
            bad.append(f"{name}: returned {got}, recount {m[name]}")
    if sum(stats.failure_error_counts.values()) != m["failures"]:
        bad.append(f"per-error counters sum to {sum(stats.failure_error_counts.values())}, failed results: {m['failures']}")
    if abs(stats.throughput - m["containers_completed"] / dur) > 1e-9 * max(1, m["containers_completed"] / dur):
        bad.append(f"throughput {stats.throughput} vs successful containers per second {m['containers_completed'] / dur}")
    if not close(stats.p99_latency, m["ctr_p99"], tps):
        bad.append(f"container p99 {stats.p99_latency} vs recount {m['ctr_p99']}")
    for cname, cs in (("all", stats.pipelines_all), ("query", stats.pipelines_query), ("interactive", stats.pipelines_interactive), ("batch", stats.pipelines_batch)):
        mc = m[cname]
        if cs.arrival_count != mc["arrivals"] or cs.completion_count != mc["completions"]:
            bad.append(f"{cname}: arrivals/completions {cs.arrival_count}/{cs.completion_count} vs recount {mc['arrivals']}/{mc['completions']}")
        if not close(cs.mean_latency_seconds, mc["mean"], tps) or not close(cs.p99_latency_seconds, mc["p99"], tps):
            bad.append(f"{cname}: mean/p99 latency {cs.mean_latency_seconds}/{cs.p99_latency_seconds} vs recount {mc['mean']}/{mc['p99']} ticks")
    return bad


def per_pipeline(rec):
    """finish ticks recorded by the simulator against the tick in which the last operator completed"""
    bad = []
    t_done = {}
    for t, ex in enumerate(rec.exec):
        for p in ex["done"]:
            t_done[id(p)] = t
    for p in rec.pipelines:
        ft = p.runtime_status().finish_tick
        if ft != t_done.get(id(p)):
            bad.append(f"pipeline {p.pipeline_id}: finish recorded at tick {ft}, its last operator completed in tick {t_done.get(id(p))}")
    return bad


def sweep_model(drv, rec):
    """the completion bookkeeping of the main loop, run by the Lean model (`Sweep.runSweep`) on this run's history, against what the simulator recorded:
    every pipeline finished exactly once, with the finish tick and latency the model derives; the others not at all"""
    base, nops = {}, 0
    for k, p in enumerate(rec.pipelines):
        n = len(p.runtime_status().operator_states)
        base[k] = list(range(nops, nops + n))
        nops += n
    idx = {id(p): k for k, p in enumerate(rec.pipelines)}
    n = len(rec.arrivals)
    hist = []
    for t in range(n):
        ex = rec.exec[t]
        hist.append([[[idx[id(p)], base[idx[id(p)]]] for p in rec.arrivals[t]], int(bool(ex["results"])), [o for k in ex["complete"] for o in base[k]]])
    m = drv.send(f"sweep {nops} " + json.dumps(hist, separators=(",", ":")))
    want = {k: (t, lat) for k, t, lat in m["finished"]}
    bad = []
    if len(want) != len(m["finished"]):
        bad.append("model: a pipeline finished twice")
    for k, p in enumerate(rec.pipelines):
        rt = p.runtime_status()
        got = None if rt.finish_tick is None else (rt.finish_tick, rt.get_latency_ticks())
        if got != want.get(k):
            bad.append(f"pipeline {p.pipeline_id}: simulator recorded (finish tick, latency) = {got}, the bookkeeping model gives {want.get(k)}")
    return bad


def one_run(ctx, drv, rng):
    algo = rng.choice(["naive", "priority", "priority-pool", "overbook", "template"])
    tps = rng.choice([1, 2, 10, 100, 1, 2, 10, 100, 3, 7, 12, 60])     # also rates whose tick length is not a whole number of microseconds
    probs = rng.choice([(0.3, 0.1, 0.6), (0.0, 0.0, 1.0), (0.0, 1.0, 0.0), (0.5, 0.5, 0.0), (0.25, 0.25, 0.5)])
    params = {"duration": rng.choice([0.5, 2, 20, 60, 200]) if tps <= 10 else rng.choice([0.005, 2, 20]), "ticks_per_second": tps,
              "waiting_seconds_mean": rng.choice([0.3, 1.0, 5.0, 1000.0]), "num_pipelines": rng.randint(1, 4), "num_operators": rng.choice([1, 3, 5]),
              "interactive_prob": probs[0], "query_prob": probs[1], "batch_prob": probs[2], "cpu_io_ratio": rng.choice([0.0, 0.5, 1.0]),
              "num_pools": 2 if algo == "priority-pool" else rng.choice([1, 2, 4]), "cpus_per_pool": rng.choice([1, 4, 64]),
              "ram_gb_per_pool": rng.choice([8, 64, 256]), "multi_operator_containers": True if algo == "priority-pool" else rng.random() < 0.5,
              "allow_memory_overcommit": algo == "overbook", "random_seed": rng.randint(0, 10 ** 6)}
    layer_m.FLAG_RESUME = params["random_seed"] % 3 == 0      # a third of the runs: assignments flagged as resumptions are assignments all the same
    workload = None
    kind = rng.random()
    if kind < 0.15:
        from eudoxia.workload.csv_io import CSVWorkloadReader
        n = rng.randint(0, 6)
        arr = sorted(round(rng.uniform(0, params["duration"] * 1.2), 2) for _ in range(n))
        workload = CSVWorkloadReader(io.StringIO(csv_text([str(a) for a in arr]))).get_workload(tps)
        ctx.sit("trace_workload_empty" if n == 0 else "trace_workload")
    elif kind < 0.4 and params["duration"] >= 2:
        # hand-built DAGs with several sinks of different lengths (and a join now and then): with single-operator containers the sinks end in
        # different containers at different ticks, and the pipeline is complete only with the last of them
        import det_run
        if algo != "priority-pool":
            params["multi_operator_containers"] = rng.random() < 0.25
        pipes = []
        for _ in range(rng.randint(1, 4)):
            nsink = rng.randint(2, 4)
            ops = [{"parents": [], "ticks": rng.randint(1, 2), "mem": 1}]
            for k in range(nsink):
                ops.append({"parents": [0], "ticks": rng.randint(1, 3) + 2 * k, "mem": rng.choice([1, 2])})
            if rng.random() < 0.3:
                ops.append({"parents": [1, 2], "ticks": rng.randint(1, 3), "mem": 1})
            elif rng.random() < 0.4:
                # two equal branches that need more memory than a first container is given: started together, they are killed in the same tick --
                # two failed results of ONE pipeline in one tick
                ops[1].update({"ticks": 2, "mem": 30})
                ops[2].update({"ticks": 2, "mem": 30})
                ctx.sit("dag_with_two_branches_failing_together")
            pipes.append({"prio": rng.choice([1, 2, 3]), "ops": ops})
        nt = int(params["duration"] * tps)
        arrivals = [[] for _ in range(nt)]
        for k in range(len(pipes)):
            arrivals[rng.randrange(max(1, nt // 2))].append(k)
        spec = {"pipes": pipes, "arrivals": arrivals, "tps": tps}
        workload = det_run.fixed_workload(spec)
        ctx.sit("multi_sink_dag_workload")
    real = template_scheduler() if algo == "template" else algo
    try:
        stats, rec = layer_m.run_recorded(params, real, workload)
    except Exception as e:
        return viol(ctx, "raised", f"run_simulator raised {type(e).__name__}: {e}", {"params": params, "algo": algo})
    ctx.coverage["evaluations"] += 1
    ev = layer_m.history(rec)
    m = drv.send("recount " + json.dumps(ev, separators=(",", ":")))
    if m["loop"] != m["recount"]:
        raise RuntimeError("model: loop != recount")
    bad = compare(stats, m["recount"], params) + per_pipeline(rec) + sweep_model(drv, rec)
    case = {"params": params, "algo": algo}
    ctx.sit(algo + "_runs")
    if stats.pipelines_created == 0:
        ctx.sit("runs_nothing_arrives")
    if stats.pipelines_all.completion_count == 0:
        ctx.sit("runs_nothing_finishes")
    if min(stats.pipelines_query.arrival_count, stats.pipelines_interactive.arrival_count, stats.pipelines_batch.arrival_count) == 0:
        ctx.sit("runs_with_empty_class")
    if bad:
        return viol(ctx, "recount", "returned statistics differ from the recount: " + "; ".join(bad[:4]), case)
    ctx.coverage["distinct_nontrivial"] += 1 if stats.assignments > 0 else 0
    if len(ctx.coverage["samples"]) < 2:
        ctx.coverage["samples"].append({"params": params, "algo": algo, "recount": m["recount"]["all"], "events_head": ev[:3]})


def preempt_run(ctx, drv, rng):
    """priority scheduler with preemption on small pools, cut off at a random tick: runs that end while suspensions are in flight"""
    from eudoxia.workload import Workload
    from eudoxia.workload.pipeline import Pipeline, Segment
    from eudoxia.utils import Priority
    from props.scommon import preempt_scenario
    from common import num
    sc = preempt_scenario(rng.randint(0, 10 ** 9))
    c = sc["cfg"]
    pls = []
    for k, p in enumerate(sc["pipes"]):
        pl = Pipeline(f"p{k}", Priority(p["prio"]))
        ops = []
        for o in p["ops"]:
            op = pl.new_operator([ops[i] for i in o["parents"]] if o["parents"] else None)
            for sg in o["segs"]:
                op.add_segment(Segment(baseline_cpu_seconds=num(sg["base"]), cpu_scaling=sg["law"], memory_gb=None if sg["fixed"] is None else num(sg["fixed"]),
                                       storage_read_gb=num(sg["read"])))
            ops.append(op)
        pls.append(pl)

    class W(Workload):
        def __init__(self):
            self.t = 0
        def run_one_tick(self):
            out = [pls[i] for i in sc["arrivals"][self.t]] if self.t < len(sc["arrivals"]) else []
            self.t += 1
            return out

    cut = rng.randint(4, 30)
    params = {"duration": cut / c["tps"], "ticks_per_second": c["tps"], "num_pools": c["npools"], "cpus_per_pool": c["cpus"], "ram_gb_per_pool": num(c["ram"]),
              "multi_operator_containers": True}
    try:
        stats, rec = layer_m.run_recorded(params, "priority", W())
    except Exception as e:
        return viol(ctx, "raised", f"run_simulator raised {type(e).__name__}: {e}", {"params": params})
    ctx.coverage["evaluations"] += 1
    ev = layer_m.history(rec)
    m = drv.send("recount " + json.dumps(ev, separators=(",", ":")))
    bad = compare(stats, m["recount"], params) + per_pipeline(rec) + sweep_model(drv, rec)
    ctx.sit("preemption_runs")
    ctx.sit("suspensions_in_preemption_runs", stats.suspensions)
    if bad:
        return viol(ctx, "recount", "returned statistics differ from the recount: " + "; ".join(bad[:4]), {"params": params, "scenario": sc})
    ctx.coverage["distinct_nontrivial"] += 1 if stats.assignments > 0 else 0


def uncontended(ctx, drv, rng):
    """one pipeline, enough memory, nothing else running: it occupies exactly the ticks its operators need"""
    from eudoxia.workload import Workload
    from eudoxia.workload.pipeline import Pipeline, Segment
    from eudoxia.utils import Priority
    algo = rng.choice(["naive", "priority", "priority-pool", "overbook"])
    tps = rng.choice([1, 2, 4, 8, 16])
    multi = True if algo == "priority-pool" else (False if algo == "overbook" else rng.random() < 0.5)
    # a quarter of the runs: a pool of 2.5 CPUs under naive (the container gets all 2.5) and the law linear3, i.e. CPU time = base / 2.5; the base is chosen
    # so that every quotient is exact in floats (binary tick rates)
    frac_cpu = rng.random() < 0.25
    if frac_cpu:
        algo, multi = "naive", True
    # another quarter: a pool of 4 CPUs under naive and all five rational laws side by side, on segments that share their numbers (same CPU seconds,
    # same read size) within a run and from run to run: the ticks a segment needs depend on its law too (4 CPUs: const /1, linear3 /3, linear7 /4,
    # squared /16, exp /16; bases are multiples of 48 / tps, so every quotient is exact)
    mixed = (not frac_cpu) and rng.random() < 1 / 3
    if mixed:
        algo, multi = "naive", True
        ctx.sit("uncontended_runs_same_numbers_different_laws")
    DIV = {"const": 1, "linear3": 3, "linear7": 4, "squared": 16, "exp": 16}
    nops = rng.randint(1, 4)
    p = Pipeline("u", rng.choice(list(Priority)))
    ops, need = [], 0
    for i in range(nops):
        op = p.new_operator([ops[-1]] if ops else None)
        tot = 0
        for _ in range(rng.choice([1, 1, 2, 3])):          # several segments per operator, some of which take no tick at all
            k = rng.randint(0, 4) if rng.random() < 0.7 else 0
            io = rng.randint(0, 3) if rng.random() < 0.6 else 0
            if mixed:
                law = rng.choice(sorted(DIV))
                j = rng.randint(0, 2)
                io = rng.randint(0, 1)
                op.add_segment(Segment(baseline_cpu_seconds=48 * j / tps, cpu_scaling=law, memory_gb=0.5, storage_read_gb=io * 20 / tps))
                k = 48 * j // DIV[law]
            elif frac_cpu:
                op.add_segment(Segment(baseline_cpu_seconds=2.5 * k / tps, cpu_scaling="linear3", memory_gb=0.5, storage_read_gb=io * 20 / tps))
            else:
                op.add_segment(Segment(baseline_cpu_seconds=k / tps, cpu_scaling="const", memory_gb=0.5, storage_read_gb=io * 20 / tps))
            tot += k + io
        need += max(1, tot)                                 # an operator occupies at least one tick; a segment need not
        ops.append(op)
    arrive = rng.randint(0, 5)

    class One(Workload):
        def __init__(self):
            self.t = 0
        def run_one_tick(self):
            self.t += 1
            return [p] if self.t - 1 == arrive else []

    params = {"duration": (arrive + need + 5) / tps, "ticks_per_second": tps, "num_pools": 2, "cpus_per_pool": 2.5 if frac_cpu else (4 if mixed else 16), "ram_gb_per_pool": 64,
              "multi_operator_containers": multi, "allow_memory_overcommit": algo == "overbook"}
    stats, rec = layer_m.run_recorded(params, algo, One())
    ctx.coverage["evaluations"] += 1
    ctx.sit("uncontended_runs")
    rt = p.runtime_status()
    if rt.finish_tick is None or rt.finish_tick - arrive + 1 != need:
        return viol(ctx, "uncontended", f"an uncontended pipeline needing {need} ticks (arrival tick {arrive}, {algo}, multi={multi}) finished at tick {rt.finish_tick}",
                    {"algo": algo, "tps": tps, "multi": multi, "need": need, "arrive": arrive})
    ctx.coverage["distinct_nontrivial"] += 1


def recurring_id(ctx, rng):
    """a trace may use a pipeline id again once the earlier pipeline of that name has finished (a recurring job): both are pipelines of the run, each is
    counted as arrived and as completed once, and the latencies are those of both"""
    from eudoxia.workload import Workload
    from eudoxia.workload.pipeline import Pipeline, Segment
    from eudoxia.utils import Priority
    tps = rng.choice([1, 2, 4])
    algo = rng.choice(["naive", "priority", "overbook"])
    prio = rng.choice(list(Priority))
    durs = [rng.randint(1, 4), rng.randint(5, 9), rng.randint(1, 3)]
    names = ["nightly", "other", "nightly"]
    pls = []
    for nm, k in zip(names, durs):
        p = Pipeline(nm, prio)
        op = p.new_operator(None)
        op.add_segment(Segment(baseline_cpu_seconds=k / tps, cpu_scaling="const", memory_gb=0.5, storage_read_gb=0))
        pls.append(p)
    gap = durs[0] + 3
    at = {0: [pls[0]], 1: [pls[1]], gap + 1: [pls[2]]}

    class W(Workload):
        def __init__(self):
            self.t = 0
        def run_one_tick(self):
            self.t += 1
            return at.get(self.t - 1, [])

    params = {"duration": (gap + 1 + durs[2] + durs[1] + 6) / tps, "ticks_per_second": tps, "num_pools": 2, "cpus_per_pool": 8, "ram_gb_per_pool": 64,
              "multi_operator_containers": True, "allow_memory_overcommit": algo == "overbook"}
    stats, rec = layer_m.run_recorded(params, algo, W())
    ctx.coverage["evaluations"] += 1
    ctx.sit("runs_with_a_recurring_pipeline_id")
    lat = [(d - 1) / tps for d in durs]      # recorded latency = finish tick - arrival tick (`Sweep.sweep`): an operator of d ticks arriving in tick a finishes in tick a + d - 1
    a = stats.pipelines_all
    if a.arrival_count != 3 or a.completion_count != 3 or abs(a.mean_latency_seconds - sum(lat) / 3) > 1e-9:
        return viol(ctx, "recurring-id", f"three uncontended one-operator pipelines of {durs} ticks, the third re-using the id of the first after it finished "
                                         f"({algo}, {tps} ticks/s): arrivals {a.arrival_count}, completions {a.completion_count} (3 expected), mean latency "
                                         f"{a.mean_latency_seconds} ({sum(lat) / 3} expected)", {"algo": algo, "tps": tps, "durs": durs})
    ctx.coverage["distinct_nontrivial"] += 1


def run(ctx):
    rng = random.Random(ctx.seed)
    drv = Driver()
    try:
        for _ in range(60 if ctx.quick() else 600):
            one_run(ctx, drv, rng)
        layer_m.FLAG_RESUME = False
        for _ in range(40 if ctx.quick() else 400):
            uncontended(ctx, drv, rng)
        for _ in range(6 if ctx.quick() else 40):
            recurring_id(ctx, rng)
        for _ in range(60 if ctx.quick() else 600):
            preempt_run(ctx, drv, rng)
    finally:
        drv.close()
    ctx.coverage["rule"] = ("run_simulator with a recording workload, a recording scheduler wrapper and a recording executor wrapper; the history of arrivals, "
                            "decisions, results and last-operator completions is recounted by the Lean model (exact rationals, numpy's percentile rule) and compared "
                            "with the returned SimulatorStats (integers exactly, floats to 1e-9) and with every pipeline's recorded finish tick; non-trivial = a run with assignments")


def replay(ctx, rep):
    run(ctx)
