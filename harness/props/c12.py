import slayer
from props.scommon import scen, preempt_scenario, pp_exact_fit_scenario, pp_cutoff_scenario, preempt_lockstep_scenario, resume_elsewhere_scenario, queued_siblings_scenario
"""C12 - priority: strict priority order, work conservation, query-only preemption"""


def scenarios(ctx, n):
    yield from scen(ctx, ["priority", "priority", "priority-pool"], n)
    s = ctx.seed * 7919
    for i in range(n // 2):
        yield preempt_scenario(s + i)
    for i in range(max(6, n // 10)):
        yield pp_cutoff_scenario(s + i)
    for i in range(max(8, n // 8)):
        yield preempt_lockstep_scenario(s + i)
    for i in range(max(4, n // 16)):
        yield resume_elsewhere_scenario(s + i)
    for i in range(max(6, n // 12)):
        yield queued_siblings_scenario(s + i)


def run(ctx):
    n = 100 if ctx.quick() else 1000
    slayer.run_scenarios_s(ctx, "C12", scenarios(ctx, n))


def replay(ctx, rep):
    slayer.replay_s(ctx, "C12", rep)
