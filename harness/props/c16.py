import slayer
from props.scommon import scen, preempt_scenario
"""C16 - priority-pool keeps batch work and latency-sensitive work on separate pools"""


def run(ctx):
    n = 120 if ctx.quick() else 1200
    slayer.run_scenarios_s(ctx, "C16", scen(ctx, ["priority-pool"], n))


def replay(ctx, rep):
    slayer.replay_s(ctx, "C16", rep)
