import slayer
from props.scommon import scen, preempt_scenario, pp_exact_fit_scenario
"""C16 - priority-pool keeps batch work and latency-sensitive work on separate pools"""


def run(ctx):
    n = 120 if ctx.quick() else 1200
    def gen():
        yield from scen(ctx, ["priority-pool"], n)
        for i in range(n // 3):
            yield pp_exact_fit_scenario(ctx.seed * 7919 + i)
    slayer.run_scenarios_s(ctx, "C16", gen())


def replay(ctx, rep):
    slayer.replay_s(ctx, "C16", rep)
