import random
from layer_s import gen_scenario
from fractions import Fraction as F
from common import fstr
import gen_e


def scen(ctx, algos, n, base=0, **kw):
    s = ctx.seed * 1000003 + base
    for i in range(n):
        yield gen_scenario(s + i, algos[i % len(algos)], **kw)


def preempt_scenario(seed):
    """priority: batch containers of several short operators are running when query pipelines arrive on full pools;
    allocations chosen so that write-outs take 1, 2 or more ticks"""
    rng = random.Random(seed)
    tps = rng.choice([1, 2, 4, 8, 16])
    ram = rng.choice([2, 8, 32, 64, 256])
    cfg = {"tps": tps, "multi": True, "over": False, "npools": rng.choice([1, 1, 2]), "cpus": rng.choice([1, 2, 4, 10, 16]), "ram": fstr(ram)}
    pipes = []
    nb = rng.randint(1, 4) * cfg["npools"]
    for _ in range(nb):
        n = rng.randint(2, 5)
        pipes.append({"prio": rng.choice([3, 3, 2]), "ops": [gen_e.simple_op(tps, rng.randint(1, 3), fixed=F(1, 64), parents=[i - 1] if i else []) for i in range(n)]})
    nq = rng.randint(1, 4)
    for _ in range(nq):
        pipes.append({"prio": 1, "ops": [gen_e.simple_op(tps, rng.randint(1, 4), fixed=F(1, 64))]})
    nticks = 60
    arrivals = [[] for _ in range(nticks)]
    arrivals[0] = list(range(nb))
    for k in range(nq):
        arrivals[rng.randint(1, 8)].append(nb + k)
    return {"layer": "S", "algo": "priority", "cfg": cfg, "pipes": pipes, "steps": [], "arrivals": arrivals}
