import random
from layer_s import gen_scenario
from fractions import Fraction as F
from common import fstr
import gen_e


def scen(ctx, algos, n, base=0, **kw):
    s = ctx.seed * 1000003 + base
    for i in range(n):
        yield gen_scenario(s + i, algos[i % len(algos)], **kw)


def preempt_scenario(seed):
    """priority: batch containers of several short operators are running when query pipelines arrive on full pools;
    allocations chosen so that write-outs take 1, 2 or more ticks"""
    rng = random.Random(seed)
    tps = rng.choice([1, 2, 4, 8, 16])
    ram = rng.choice([2, 8, 32, 64, 256])
    cfg = {"tps": tps, "multi": True, "over": False, "npools": rng.choice([1, 1, 2]), "cpus": rng.choice([1, 2, 4, 10, 16]), "ram": fstr(ram)}
    pipes = []
    nb = rng.randint(1, 4) * cfg["npools"]
    for _ in range(nb):
        n = rng.randint(2, 5)
        pipes.append({"prio": rng.choice([3, 3, 2]), "ops": [gen_e.simple_op(tps, rng.randint(1, 3), fixed=F(1, 64), parents=[i - 1] if i else []) for i in range(n)]})
    nq = rng.randint(1, 5)
    for _ in range(nq):
        # query pipelines with one or several operators (hand-built / trace workloads may have multi-operator queries)
        k = rng.choice([1, 1, 2, 3])
        pipes.append({"prio": 1, "ops": [gen_e.simple_op(tps, rng.randint(1, 4), fixed=F(1, 64), parents=[i - 1] if i else []) for i in range(k)]})
    nticks = 60
    arrivals = [[] for _ in range(nticks)]
    arrivals[0] = list(range(nb))
    if rng.random() < 0.4:
        # some query work is already running when the pools fill up
        arrivals[0] = [nb + k for k in range(nq // 2)] + arrivals[0]
        for k in range(nq // 2, nq):
            arrivals[rng.randint(1, 8)].append(nb + k)
    else:
        for k in range(nq):
            arrivals[rng.randint(1, 8)].append(nb + k)
    return {"layer": "S", "algo": "priority", "cfg": cfg, "pipes": pipes, "steps": [], "arrivals": arrivals}


def pp_exact_fit_scenario(seed):
    """priority-pool: a pipeline is OOM-retried with doubled sizes while filler containers hold the rest of its pool, so that a
    doubled request meets exactly what is free (in RAM or in CPUs); more work for the same pool arrives afterwards"""
    rng = random.Random(seed)
    tps = rng.choice([1, 2, 4])
    unit = rng.choice([1, 2, 10])                      # a tenth of the pool's RAM, in GB
    cpus = rng.choice([10, 20, 40, 64])
    cfg = {"tps": tps, "multi": True, "over": False, "npools": 2, "cpus": cpus, "ram": fstr(10 * unit)}
    prio = rng.choice([3, 3, 2])
    fill = rng.choice([6, 6, 5, 7, 2])
    pipes = [{"prio": prio, "ops": [gen_e.simple_op(tps, rng.randint(30, 60), fixed=F(1, 64))]} for _ in range(fill)]
    need = rng.choice([F(unit) * 3, F(unit) * 5 / 2, F(unit) * 3 / 2])
    if (need * 64).denominator != 1:
        need = F(unit) * 3
    pipes.append({"prio": prio, "ops": [gen_e.simple_op(tps, 3, fixed=need)]})
    late = rng.randint(1, 3)
    for _ in range(late):
        pipes.append({"prio": prio, "ops": [gen_e.simple_op(tps, 2, fixed=F(1, 64))]})
    nticks = 40
    arrivals = [[] for _ in range(nticks)]
    arrivals[0] = list(range(fill + 1))
    for k in range(late):
        arrivals[rng.randint(2, 8)].append(fill + 1 + k)
    return {"layer": "S", "algo": "priority-pool", "cfg": cfg, "pipes": pipes, "steps": [], "arrivals": arrivals}


def pp_cutoff_scenario(seed):
    """priority-pool: a query retry that has waited a round (its pool was full) reaches the 50 % cut-off and is abandoned while newer query and
    interactive work is queued behind it and the shared pool has room again: the newer query work must be served before the interactive work"""
    rng = random.Random(seed)
    tps = rng.choice([1, 2, 4])
    cfg = {"tps": tps, "multi": True, "over": False, "npools": 2, "cpus": 2, "ram": fstr(20)}
    dx = rng.choice([2, 3])
    small = F(1, 64)
    pipes = [
        {"prio": rng.choice([1, 2]), "ops": [gen_e.simple_op(tps, dx, fixed=small)]},            # X: a tenth of the pool, short
        {"prio": 1, "ops": [gen_e.simple_op(tps, 3, fixed=F(19))]},                               # B: takes the rest (18 GB), needs 19: OOM
        {"prio": 1, "ops": [gen_e.simple_op(tps, rng.randint(10, 16), fixed=small)]},             # Y: arrives next round, takes B's room, long
        {"prio": 1, "ops": [gen_e.simple_op(tps, 2, fixed=small)]},                               # Q2: new query work behind B's retry
        {"prio": 2, "ops": [gen_e.simple_op(tps, 2, fixed=small)]},                               # I1: interactive work
    ]
    nticks = 30
    arrivals = [[] for _ in range(nticks)]
    arrivals[0] = [0, 1]
    arrivals[1] = [2]
    late = dx + rng.choice([0, 0, 0, 1])     # the round in which X's room is free again is the one in which B's retry is looked at
    arrivals[late] = rng.choice([[3, 4], [4, 3]])
    if rng.random() < 0.5:
        pipes.append({"prio": 3, "ops": [gen_e.simple_op(tps, 4, fixed=small)]})
        arrivals[rng.randint(0, 5)].append(5)
    return {"layer": "S", "algo": "priority-pool", "cfg": cfg, "pipes": pipes, "steps": [], "arrivals": arrivals}


def naive_late_root_fails_scenario(seed, algo="naive"):
    """naive / template, single-operator containers, two pools: a pipeline with operator (iteration) order [a (long root), r (short root),
    b (child of a), c (child of r, needs more than a whole pool)]; c is OOM-killed while a is still running, and other short pipelines keep arriving,
    so that the round that sees the failure gives the freed pool to somebody else; when a completes, b - which precedes the failed c in operator
    order - is ready and PENDING.  A pipeline with a failed operator must not be assigned again."""
    rng = random.Random(seed)
    tps = rng.choice([1, 2, 4])
    ram = rng.choice([8, 16, 32])
    cfg = {"tps": tps, "multi": False, "over": False, "npools": 2, "cpus": rng.choice([2, 4, 8]), "ram": fstr(ram)}
    small = F(1, 64)
    da = rng.randint(6, 14)
    pipes = [{"prio": 3, "ops": [
        gen_e.simple_op(tps, da, fixed=small),                                             # a: long root
        gen_e.simple_op(tps, rng.randint(1, 2), fixed=small),                              # r: short root
        gen_e.simple_op(tps, rng.randint(1, 3), fixed=small, parents=[0]),                  # b: child of a
        gen_e.simple_op(tps, rng.randint(1, 2), fixed=F(ram) + 1, parents=[1]),             # c: child of r, OOM in its first tick
    ]}]
    nticks = 60
    arrivals = [[] for _ in range(nticks)]
    arrivals[0] = [0]
    # a two-operator chain arriving next, and a few single-operator pipelines arriving while a runs: they trigger rounds and compete for the free pool
    pipes.append({"prio": 3, "ops": [gen_e.simple_op(tps, rng.randint(1, 2), fixed=small), gen_e.simple_op(tps, rng.randint(1, 2), fixed=small, parents=[0])]})
    arrivals[1].append(1)
    for k in range(rng.randint(1, 4)):
        pipes.append({"prio": 3, "ops": [gen_e.simple_op(tps, rng.randint(1, 3), fixed=small)]})
        arrivals[rng.randint(2, da + 4)].append(len(pipes) - 1)
    return {"layer": "S", "algo": algo, "cfg": cfg, "pipes": pipes, "steps": [], "arrivals": arrivals}


def preempt_lockstep_scenario(seed):
    """priority, one or two pools: identical batch pipelines arrive together, so their containers reach their operator boundaries in the same tick;
    two or more query pipelines then arrive on the full pool(s): several containers of one pool are suspended in the same round, with write-outs of equal
    length that end in the same tick"""
    rng = random.Random(seed)
    tps = rng.choice([1, 2, 4, 8])
    ram = rng.choice([20, 40, 80])
    cfg = {"tps": tps, "multi": True, "over": False, "npools": rng.choice([1, 1, 2]), "cpus": rng.choice([10, 20]), "ram": fstr(ram)}
    d = rng.randint(1, 3)
    nops = rng.randint(3, 5)
    nb = 10 * cfg["npools"]              # each first container gets a tenth of its pool: ten of them fill it
    pipes = [{"prio": 3, "ops": [gen_e.simple_op(tps, d, fixed=F(1, 64), parents=[i - 1] if i else []) for i in range(nops)]} for _ in range(nb)]
    nq = rng.randint(2, 4)
    for _ in range(nq):
        pipes.append({"prio": 1, "ops": [gen_e.simple_op(tps, rng.randint(1, 3), fixed=F(1, 64))]})
    nticks = 60
    arrivals = [[] for _ in range(nticks)]
    arrivals[0] = list(range(nb))
    ta = rng.randint(1, d * 2)
    arrivals[ta] = [nb + k for k in range(nq)]
    return {"layer": "S", "algo": "priority", "cfg": cfg, "pipes": pipes, "steps": [], "arrivals": arrivals}


def resume_elsewhere_scenario(seed):
    """priority on two or three pools: long and short batch pipelines fill all pools (they are dealt out pool by pool), queries arrive on the full
    pools and containers are suspended on every pool; by the time the write-outs end the short pipelines are done, so the pool with most free RAM --
    where the pre-empted work has to go -- is not the pool it was suspended from"""
    rng = random.Random(seed)
    tps = rng.choice([2, 4, 8])
    npools = rng.choice([2, 2, 3])
    ram = rng.choice([80, 160])
    cfg = {"tps": tps, "multi": True, "over": False, "npools": npools, "cpus": 10, "ram": fstr(ram)}
    short_pool = rng.randrange(npools)
    pipes = []
    for k in range(10 * npools):
        # the short ones outlast the write-outs (<= 6 ticks here) by a little, the long ones and the queries outlast everything
        n = rng.randint(10, 13) if k % npools == short_pool else rng.randint(34, 40)
        pipes.append({"prio": 3, "ops": [gen_e.simple_op(tps, 1, fixed=F(1, 64), parents=[i - 1] if i else []) for i in range(n)]})
    nq = rng.randint(2, 4)
    for _ in range(nq):
        pipes.append({"prio": 1, "ops": [gen_e.simple_op(tps, rng.randint(40, 50), fixed=F(1, 64))]})
    nticks = 60
    arrivals = [[] for _ in range(nticks)]
    arrivals[0] = list(range(10 * npools))
    arrivals[1] = [10 * npools + k for k in range(nq)]
    return {"layer": "S", "algo": "priority", "cfg": cfg, "pipes": pipes, "steps": [], "arrivals": arrivals}


def own_and_pool_oom_scenario(seed):
    """overbook with memory overcommit, one pool: several one-operator pipelines with fixed memory start in the same tick; one of them needs more than
    the whole pool (it exceeds its own limit, which is the pool's RAM), and the others together still do not fit once it is gone: an own-limit kill and
    pool-level kills in one and the same tick"""
    rng = random.Random(seed)
    tps = rng.choice([1, 2, 4])
    ram = rng.choice([32, 64])
    cfg = {"tps": tps, "multi": rng.random() < 0.5, "over": True, "npools": 1, "cpus": rng.choice([8, 16]), "ram": fstr(ram)}
    pipes = [{"prio": 3, "ops": [gen_e.simple_op(tps, rng.randint(2, 4), fixed=ram + rng.choice([1, 8, ram]))]}]
    k = rng.randint(3, 5)
    for _ in range(k):
        pipes.append({"prio": rng.choice([1, 2, 3]), "ops": [gen_e.simple_op(tps, rng.randint(2, 5), fixed=F(ram, 2) - rng.choice([0, 1, 2]))]})
    order = list(range(len(pipes)))
    rng.shuffle(order)
    nticks = 30
    arrivals = [[] for _ in range(nticks)]
    arrivals[0] = order
    return {"layer": "S", "algo": "overbook", "cfg": cfg, "pipes": pipes, "steps": [], "arrivals": arrivals}


def join_scenario(seed, algo="priority"):
    """single-operator containers on several roomy pools, a pipeline a -> {b, c (, e)} -> d whose middle operators take equally long: they are started in the
    same round, finish in the same tick and are reported together, at which moment the join operator d becomes ready.  It must be queued and assigned once."""
    rng = random.Random(seed)
    tps = rng.choice([1, 2, 4])
    cfg = {"tps": tps, "multi": False, "over": algo == "overbook", "npools": rng.choice([2, 3]), "cpus": rng.choice([16, 64]), "ram": fstr(rng.choice([64, 256]))}
    small = F(1, 64)
    d = rng.randint(1, 3)
    width = rng.choice([2, 2, 3])
    ops = [gen_e.simple_op(tps, rng.randint(1, 2), fixed=small)]
    for _ in range(width):
        ops.append(gen_e.simple_op(tps, d, fixed=small, parents=[0]))
    ops.append(gen_e.simple_op(tps, rng.randint(1, 2), fixed=small, parents=list(range(1, width + 1))))
    if rng.random() < 0.5:
        ops.append(gen_e.simple_op(tps, 1, fixed=small, parents=[width + 1]))
    pipes = [{"prio": rng.choice([1, 2, 3]), "ops": ops}]
    for _ in range(rng.randint(0, 2)):
        pipes.append({"prio": rng.choice([1, 2, 3]), "ops": [gen_e.simple_op(tps, rng.randint(1, 3), fixed=small)]})
    nticks = 40
    arrivals = [[] for _ in range(nticks)]
    arrivals[0] = [0]
    for k in range(1, len(pipes)):
        arrivals[rng.randint(0, 6)].append(k)
    return {"layer": "S", "algo": algo, "cfg": cfg, "pipes": pipes, "steps": [], "arrivals": arrivals}


def ram_gone_cpus_left_scenario(seed):
    """priority on one pool of 64 CPUs and 250 GB: nine pipelines arrive together and get a tenth of the pool each (6 CPUs, 25 GB); the query among them needs
    30 GB, is killed in its first tick and is retried with twice its allocation, which is exactly what is free: the pool is left with 4 CPUs and 0 GB.
    A batch pipeline arriving in that very round must simply wait (no pool has free RAM) -- not be handed a 0-GB container"""
    rng = random.Random(seed)
    tps = rng.choice([1, 2, 4])
    cfg = {"tps": tps, "multi": rng.random() < 0.5, "over": False, "npools": 1, "cpus": 64, "ram": "250"}
    pipes = [{"prio": 1, "ops": [gen_e.simple_op(tps, rng.randint(2, 4), fixed=30)]}]
    for _ in range(8):
        pipes.append({"prio": rng.choice([2, 3]), "ops": [gen_e.simple_op(tps, rng.randint(12, 20), fixed=F(1, 64))]})
    late = rng.randint(1, 3)
    for _ in range(late):
        pipes.append({"prio": 3, "ops": [gen_e.simple_op(tps, rng.randint(1, 3), fixed=F(1, 64))]})
    nticks = 40
    arrivals = [[] for _ in range(nticks)]
    arrivals[0] = list(range(9))
    arrivals[1] = [9 + k for k in range(late)]
    return {"layer": "S", "algo": "priority", "cfg": cfg, "pipes": pipes, "steps": [], "arrivals": arrivals}


def overbook_parallel_roots_fail_scenario(seed):
    """overbook: a pipeline with two or three parallel roots (and a join) each of which needs more memory than the pool has, next to pipelines that are fine:
    every attempt of a root ends in an OOM kill, the failures are spread over several operators of the same pipeline, and after the third failed container the
    pipeline must not be assigned again -- whichever of its operators would be next"""
    rng = random.Random(seed)
    tps = rng.choice([1, 2, 4])
    ram = rng.choice([16, 32])
    cfg = {"tps": tps, "multi": rng.random() < 0.5, "over": True, "npools": rng.choice([1, 2]), "cpus": rng.choice([4, 8]), "ram": fstr(ram)}
    width = rng.choice([2, 3])
    ops = [gen_e.simple_op(tps, rng.randint(1, 3), fixed=ram + rng.choice([1, 8])) for _ in range(width)]
    ops.append(gen_e.simple_op(tps, 1, fixed=F(1, 64), parents=list(range(width))))
    pipes = [{"prio": rng.choice([1, 2, 3]), "ops": ops}]
    for _ in range(rng.randint(1, 3)):
        pipes.append({"prio": rng.choice([1, 2, 3]), "ops": [gen_e.simple_op(tps, rng.randint(1, 4), fixed=F(1, 64), parents=[i - 1] if i else []) for i in range(rng.randint(1, 3))]})
    nticks = 40
    arrivals = [[] for _ in range(nticks)]
    arrivals[0] = [0]
    for k in range(1, len(pipes)):
        arrivals[rng.randint(0, 6)].append(k)
    return {"layer": "S", "algo": "overbook", "cfg": cfg, "pipes": pipes, "steps": [], "arrivals": arrivals}


def unordered_arrivals_scenario(seed, algo="naive"):
    """several pipelines arrive in ONE tick in an order that is not the order of their ids (p4, p0, p3, ... as a hand-written trace may have them) while there
    are fewer free pools than pipelines: who is served first is decided by arrival order alone"""
    rng = random.Random(seed)
    tps = rng.choice([1, 2, 4])
    cfg = {"tps": tps, "multi": algo != "template" and rng.random() < 0.5, "over": False, "npools": rng.choice([1, 2]), "cpus": 4, "ram": "16"}
    n = rng.randint(4, 6)
    pipes = [{"prio": 3, "ops": [gen_e.simple_op(tps, rng.randint(2, 4), fixed=F(1, 64))]} for _ in range(n)]
    order = list(range(n))
    while order == sorted(order):
        rng.shuffle(order)
    nticks = 40
    arrivals = [[] for _ in range(nticks)]
    arrivals[0] = order
    return {"layer": "S", "algo": algo, "cfg": cfg, "pipes": pipes, "steps": [], "arrivals": arrivals}


def queued_siblings_scenario(seed):
    """priority with single-operator containers on one small pool (every container gets 1 CPU): a pipeline root -> {b1 .. bw} with more ready siblings than
    CPUs, so some of them wait in the queue; b1 is short and has a child c, which becomes ready while its aunts are still queued.  c must be queued in that
    very round (behind them), and lower-priority work must not overtake it."""
    rng = random.Random(seed)
    tps = rng.choice([1, 2])
    cpus = rng.choice([3, 4])
    cfg = {"tps": tps, "multi": False, "over": False, "npools": 1, "cpus": cpus, "ram": fstr(rng.choice([8, 9]))}
    small = F(1, 64)
    width = cpus + rng.randint(1, 3)
    long = rng.randint(3, 4)
    ops = [gen_e.simple_op(tps, 1, fixed=small)]
    ops.append(gen_e.simple_op(tps, 1, fixed=small, parents=[0]))
    for i in range(2, width + 1):
        ops.append(gen_e.simple_op(tps, long if i <= cpus else rng.randint(1, 2), fixed=small, parents=[0]))
    ops.append(gen_e.simple_op(tps, rng.randint(1, 2), fixed=small, parents=[1]))
    pipes = [{"prio": rng.choice([1, 2]), "ops": ops}]
    for _ in range(rng.randint(1, 2)):
        pipes.append({"prio": 3, "ops": [gen_e.simple_op(tps, rng.randint(1, 3), fixed=small)]})
    nticks = 40
    arrivals = [[] for _ in range(nticks)]
    arrivals[0] = [0]
    for k in range(1, len(pipes)):
        arrivals[rng.randint(0, 4)].append(k)
    return {"layer": "S", "algo": "priority", "cfg": cfg, "pipes": pipes, "steps": [], "arrivals": arrivals}
