import slayer
from props.scommon import scen, preempt_scenario, naive_late_root_fails_scenario, unordered_arrivals_scenario
"""C17 - naive scheduler: whole-pool FIFO without retries or preemption (also the starter scheduler of `eudoxia init`)"""


def library_mode(ctx):
    """library use: an `Executor` built with its defaults and a naive `Scheduler` told `multi_operator_containers=False` -- the container mode is the
    scheduler's parameter: every container it asks for holds exactly one operator"""
    import logging, sys
    from common import REPO
    logging.disable(logging.CRITICAL)
    if REPO not in sys.path:
        sys.path.insert(0, REPO)
    from eudoxia.executor import Executor
    from eudoxia.scheduler import Scheduler
    from eudoxia.workload.pipeline import Pipeline, Segment
    from eudoxia.utils import Priority
    for tps in (1, 4):
        ex = Executor(2, 8, 64, tps)
        sch = Scheduler(ex, scheduler_algo="naive", multi_operator_containers=False, allow_memory_overcommit=False, duration=100, ticks_per_second=tps)
        p = Pipeline("lib", Priority.BATCH_PIPELINE)
        prev = None
        for _ in range(3):
            prev = p.new_operator([prev] if prev else None)
            prev.add_segment(Segment(baseline_cpu_seconds=2 / tps, cpu_scaling="const", memory_gb=0.5, storage_read_gb=0))
        results, sizes = [], []
        for t in range(12):
            sus, asg = sch.run_one_tick(results, [p] if t == 0 else [])
            sizes += [len(a.ops) for a in asg]
            try:
                results = ex.run_one_tick(sus, asg)
            except BaseException as e:
                sizes.append(f"executor raised {type(e).__name__}")
                break
        ctx.coverage["evaluations"] += 1
        ctx.sit("library_mode_runs")
        if any(x != 1 for x in sizes) or not sizes:
            ctx.violations.append({"what": f"a naive Scheduler created with multi_operator_containers=False (on an Executor created with its defaults) asks for "
                                           f"containers of {sizes} operators for a chain of three", "layer": "S", "case": {"tps": tps},
                                   "sig": {"clause": "single-operator-mode"}})
            return


def run(ctx):
    n = 120 if ctx.quick() else 1200
    def scenarios():
        yield from scen(ctx, ["naive", "template", "naive"], n)
        for i in range(max(30, n // 6)):
            yield naive_late_root_fails_scenario(ctx.seed * 7919 + i, ["naive", "template"][i % 2])
        for i in range(max(6, n // 20)):
            yield unordered_arrivals_scenario(ctx.seed * 7919 + i, ["naive", "template"][i % 2])
    slayer.run_scenarios_s(ctx, "C17", scenarios())
    library_mode(ctx)


def replay(ctx, rep):
    if "scenario" not in rep:
        return library_mode(ctx)
    slayer.replay_s(ctx, "C17", rep)
