import slayer
from props.scommon import scen, preempt_scenario, naive_late_root_fails_scenario
"""C17 - naive scheduler: whole-pool FIFO without retries or preemption (also the starter scheduler of `eudoxia init`)"""


def run(ctx):
    n = 120 if ctx.quick() else 1200
    def scenarios():
        yield from scen(ctx, ["naive", "template", "naive"], n)
        for i in range(max(30, n // 6)):
            yield naive_late_root_fails_scenario(ctx.seed * 7919 + i, ["naive", "template"][i % 2])
    slayer.run_scenarios_s(ctx, "C17", scenarios())


def replay(ctx, rep):
    slayer.replay_s(ctx, "C17", rep)
