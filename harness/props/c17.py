import slayer
from props.scommon import scen, preempt_scenario
"""C17 - naive scheduler: whole-pool FIFO without retries or preemption (also the starter scheduler of `eudoxia init`)"""


def run(ctx):
    n = 120 if ctx.quick() else 1200
    slayer.run_scenarios_s(ctx, "C17", scen(ctx, ["naive", "template", "naive"], n))


def replay(ctx, rep):
    slayer.replay_s(ctx, "C17", rep)
