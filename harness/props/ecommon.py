"""shared scenario mix of the executor-level properties"""
import gen_e
from layer_e import FULL


def mix(ctx, n_generic, n_susp, n_over, n_oom, n_par, laws=("const",), bias=None, oom_over=True):
    def make(drv):
        s = ctx.seed * 1000003
        for i in range(n_generic):
            yield gen_e.gen_generic(s + i, drv=drv, laws=laws, bias=bias)
        for i in range(3 if n_generic else 0):
            yield gen_e.gen_zero_tick_tail(s + 95000 + i, drv)
        for i in range(2 if (bias or {}).get("unknown_pool", 0.02) > 0 else 0):
            yield gen_e.gen_pool_number_as_text(s + 90000 + i, drv)
        for i in range(n_susp):
            yield gen_e.gen_suspension(s + 100000 + i, drv)
        for i in range(n_over):
            yield gen_e.gen_oversell(s + 200000 + i, drv)
        for i in range(n_over // 3):
            yield gen_e.gen_suspend_oversell(s + 250000 + i, drv)
        for i in range(max(n_over // 10, 3) if n_over else 0):
            yield gen_e.gen_opcount_midbatch(s + 270000 + i, drv)
        for i in range(n_oom):
            yield gen_e.gen_oom(s + 300000 + i, drv, over=oom_over if i % 4 else False)
        for i in range(max(n_oom // 4, 1) if n_oom else 0):
            yield gen_e.gen_cancel(s + 350000 + i, drv)
        for i in range(max(n_oom // 10, 2) if n_oom else 0):
            yield gen_e.gen_oom_fast_clock(s + 370000 + i, drv)
        for i in range(max(n_oom // 10, 2) if n_oom else 0):
            yield gen_e.gen_suspend_while_others_grow(s + 380000 + i, drv)
        for i in range(max(n_susp // 4, 1) if n_susp else 0):
            yield gen_e.gen_sibling_suspend(s + 150000 + i, drv)
        for i in range(max(n_susp // 8, 2) if n_susp else 0):
            yield gen_e.gen_drain_during_writeout(s + 170000 + i, drv)
        for i in range(max(n_susp // 8, 2) if n_susp else 0):
            yield gen_e.gen_suspend_overcommitted(s + 180000 + i, drv)
        for i in range(max(n_susp // 16, 3) if n_susp else 0):
            yield gen_e.gen_opcount_midbatch(s + 190000 + i, drv, suspend_it=True)
        for i in range(max(n_susp // 12, 4) if (n_susp and not n_over) else 0):
            yield gen_e.gen_suspend_oversell(s + 195000 + i, drv)
        for i in range(n_par):
            yield gen_e.gen_parents(s + 400000 + i, drv)
        for i in range(max(n_par // 10, 3) if n_par else 0):
            yield gen_e.gen_unrelated_branch_completes(s + 450000 + i, drv)
    return make
