"""C19 - the REST bridge is transparent and keeps its protocol promises  (partial: transport exercised over loop-back HTTP)"""
import json, logging, math, random, sys, threading
from fractions import Fraction as F
from http.server import BaseHTTPRequestHandler, HTTPServer
from common import Driver, REPO
import layer_m, det_run

logging.disable(logging.CRITICAL)
if REPO not in sys.path:
    sys.path.insert(0, REPO)

OP_KEYS = {"id", "state", "is_assignable_state", "parents_complete"}


class Peer:
    """the external scheduler: a naive policy (transcription of go/naive) that may also suspend a suspendable batch container"""
    def __init__(self, rng, suspend_prob, multi=False, retry=False, parents=None, frac=False, over=False, escalate=None, pack=False):
        self.rng, self.suspend_prob, self.multi = rng, suspend_prob, multi
        self.pack = pack          # also admissible: many small containers (1 CPU, 4 GB) per pool and call, so that a pool runs several side by side
        self.erng = escalate      # also admissible: ask for a container priority other than the pipeline's (its own random stream, or None)
        self.frac = frac          # also admissible: ask for fractional CPUs / GB (binary fractions, so nothing is lost in JSON)
        self.over = over          # memory overcommit is on: one CPU and the pool's whole RAM per container, like overbook -> free RAM goes negative
        self.retry = retry        # also admissible: give a failed operator another try instead of dropping its pipeline
        self.parents = parents    # for hand-built DAG pipelines: {pipeline_id: [[parent positions] per operator]} -> the peer may pick any admissible operator order
        self.op_snaps = []        # per call: the real state of every operator delivered so far
        self.calls = []           # (body, reply, snapshot of the real state taken when the request arrived)
        self.executor = None      # set by the harness: same process, used only to pick *admissible* suspensions and to snapshot the truth

    def decide(self, body):
        asg, sus = [], []
        pipes = body["other_pipelines"] + body["new_pipelines"]
        used = set()
        for pool in body["pools"]:
            if pool["avail_cpu"] <= 0 or (pool["avail_ram_gb"] <= 0 and not self.over):
                continue
            want_cpu, want_ram = pool["avail_cpu"], pool["avail_ram_gb"]
            if self.over:
                want_cpu, want_ram = min(2, pool["avail_cpu"]), pool["max_ram_gb"]
            elif self.pack:
                want_cpu, want_ram = 1, min(4, pool["avail_ram_gb"])
            elif self.frac and want_cpu > 1 and want_ram > 1:
                want_cpu, want_ram = want_cpu - self.rng.choice([0.5, 0.25, 1.5 if want_cpu > 2 else 0.5]), want_ram - self.rng.choice([0.5, 0.75, 3.5 if want_ram > 4 else 0.5])
                self.fractional = getattr(self, "fractional", 0) + 1
            for p in pipes:
                if p["is_complete"] or (p["has_failures"] and not self.retry) or p["pipeline_id"] in used:
                    continue
                ready = [o for o in p["operators"] if o["is_assignable_state"] and o["parents_complete"]]
                if not ready:
                    continue
                used.add(p["pipeline_id"])
                if p["has_failures"]:
                    self.retried = getattr(self, "retried", 0) + 1
                if self.multi and self.rng.random() < 0.25:
                    # admissible but unusual: one container for the ready operators of two different pipelines
                    other = next((q for q in pipes if q["pipeline_id"] not in used and not q["is_complete"] and not q["has_failures"]
                                  and any(o["is_assignable_state"] and o["parents_complete"] for o in q["operators"])), None)
                    if other is not None:
                        used.add(other["pipeline_id"])
                        o2 = next(o for o in other["operators"] if o["is_assignable_state"] and o["parents_complete"])
                        asg.append({"operator_ids": [ready[0]["id"], o2["id"]], "cpu": want_cpu, "ram_gb": want_ram,
                                    "priority": self.prio_for(p), "pool_id": pool["pool_id"], "is_resume": False, "force_run": False})
                        self.mixed = getattr(self, "mixed", 0) + 1
                        break
                chosen = [o["id"] for o in p["operators"] if o["is_assignable_state"]] if self.multi and len(ready) == 1 and \
                    all(o["is_assignable_state"] or o["state"] == "completed" for o in p["operators"]) else [ready[0]["id"]]
                if len(chosen) > 2 and self.parents and p["pipeline_id"] in self.parents:
                    chosen = self.some_order(p, chosen)
                asg.append({"operator_ids": chosen, "cpu": want_cpu, "ram_gb": want_ram, "priority": self.prio_for(p),
                            "pool_id": pool["pool_id"], "is_resume": False, "force_run": False})
                if self.pack:
                    given = sum(1 for a in asg if a["pool_id"] == pool["pool_id"])
                    if given < pool["avail_cpu"] and 4 * (given + 1) <= pool["avail_ram_gb"]:
                        continue
                break
        if self.executor is not None and self.rng.random() < self.suspend_prob:
            for pool in self.executor.pools:
                for c in pool.active_containers:
                    # one suspension per reply, or (in the runs with the second random stream) every suspendable container -- several of one pool included
                    if c.can_suspend_container() and (not sus or self.erng is not None):
                        sus.append({"container_id": c.container_id, "pool_id": pool.pool_id})
                        if len(sus) > 1 and sus[-1]["pool_id"] == sus[-2]["pool_id"]:
                            self.same_pool_sus = getattr(self, "same_pool_sus", 0) + 1
        return {"suspensions": sus, "assignments": asg}

    def prio_for(self, p):
        if self.erng is not None and self.erng.random() < 0.4:
            self.escalated = getattr(self, "escalated", 0) + 1
            return self.erng.choice([x for x in ("QUERY", "INTERACTIVE", "BATCH_PIPELINE") if x != p["priority"]])
        return p["priority"]

    def some_order(self, p, chosen):
        """another admissible order of the same operators: a random order in which every operator still comes after its parents"""
        ids = [o["id"] for o in p["operators"]]
        par = self.parents[p["pipeline_id"]]
        left, out = [ids.index(x) for x in chosen], []
        while left:
            free = [k for k in left if not any(q in left for q in par[k])]
            k = self.rng.choice(free)
            left.remove(k)
            out.append(ids[k])
        if out != chosen:
            self.reordered = getattr(self, "reordered", 0) + 1
        return out

    def op_truth(self):
        return {str(o.id): [o.state().value, all(q.state().value == "completed" for q in o.parents)]
                for ps in layer_m.CURRENT.arrivals for p in ps for o in p.values}

    def truth(self):
        ex = self.executor
        if ex is None:
            return None
        return [{"avail_cpu": p.avail_cpu_pool, "avail_ram_gb": p.avail_ram_pool, "consumed_ram_gb": p.consumed_ram_gb,
                 "active": [(c.container_id, c.assignment.cpu, c.assignment.ram, c.get_current_memory_usage(), c.priority.name) for c in p.active_containers],
                 "suspending": [c.container_id for c in p.suspending_containers], "suspended": [c.container_id for c in p.suspended_containers]}
                for p in ex.pools]


def serve(peer):
    class H(BaseHTTPRequestHandler):
        def log_message(self, *a):
            pass

        def do_POST(self):
            body = json.loads(self.rfile.read(int(self.headers["Content-Length"])))
            if self.path == "/init":
                reply = {}
            else:
                snap = peer.truth()
                reply = peer.decide(body)
                peer.calls.append((body, reply, snap))
                peer.op_snaps.append(peer.op_truth())
            data = json.dumps(reply).encode()
            self.send_response(200)
            self.send_header("Content-Type", "application/json")
            self.send_header("Content-Length", str(len(data)))
            self.end_headers()
            self.wfile.write(data)

    srv = HTTPServer(("127.0.0.1", 0), H)
    th = threading.Thread(target=srv.serve_forever, daemon=True)
    th.start()
    return srv


def viol(ctx, clause, what, case):
    ctx.sit("mismatch_" + clause)
    if sum(1 for v in ctx.violations if v["sig"]["clause"] == clause) < 2:
        ctx.violations.append({"what": what, "layer": "M", "case": case, "sig": {"clause": clause}})


def stats_equal(a, b):
    def norm(x):
        if isinstance(x, dict):
            return {k: norm(v) for k, v in x.items()}
        if isinstance(x, float) and math.isnan(x):
            return "nan"
        return x
    return norm(a.to_dict()) == norm(b.to_dict())


def register_replay():
    from eudoxia.scheduler.decorators import register_scheduler, register_scheduler_init, SCHEDULING_ALGOS
    from eudoxia.executor.assignment import Assignment, Suspend
    from eudoxia.utils import Priority
    if "verif_replay" in SCHEDULING_ALGOS:
        return

    @register_scheduler_init(key="verif_replay")
    def init(s):
        s.t = 0
        s.pipes = {}

    @register_scheduler(key="verif_replay")
    def replay(s, results, pipelines):
        s.t += 1
        for p in pipelines:
            s.pipes[p.pipeline_id] = p
        plan = REPLAY_PLAN.get(s.t)
        if not plan:
            return [], []
        asg = []
        for a in plan["asg"]:
            ops = [list(s.pipes[pid].values.node_lookup.values())[k] for pid, k in a["ops"]]
            asg.append(Assignment(ops=ops, cpu=a["cpu"], ram=a["ram"], priority=Priority[a["prio"]], pool_id=a["pool"], pipeline_id=a["ops"][0][0]))
        sus = [Suspend(s.executor.pools[pool].active_containers[pos].container_id, pool) for pool, pos in plan["sus"]]
        return sus, asg


REPLAY_PLAN = {}


def dag_spec(rng, tps, directed=False):
    """hand-built DAG pipelines (fan-out, diamond, two branches), some of whose operators can never fit a 64 GB pool: their memory grows with what
    they read, so they run for a few seconds before the OOM killer ends them -- and a peer that retries keeps operators changing state in both directions"""
    pipes = []
    if directed:
        # two equal siblings that can never fit, retried one call apart on two pools: in one and the same tick one of them fails and the other starts again
        read, k = rng.choice([160, 200]), rng.randint(1, tps)
        grow = {"parents": [0], "ticks": k, "mem": None, "read": read}
        return {"pipes": [{"prio": rng.choice([1, 2, 3]), "ops": [{"parents": [], "ticks": 1, "mem": 1, "read": 0}, dict(grow), dict(grow)]}],
                "arrivals": [[0]], "tps": tps}
    for _ in range(rng.randint(1, 2)):
        shape = rng.choice([[[], [0], [0], [0]], [[], [0], [0], [1, 2]], [[], [0], [0], [1], [2]]])
        ops = []
        for k, par in enumerate(shape):
            hopeless = k in (1, 2) and rng.random() < 0.6
            ops.append({"parents": par, "ticks": rng.randint(1, 2 * tps), "mem": None if hopeless else rng.choice([1, 4, 16]),
                        "read": rng.choice([160, 200]) if hopeless else 0})
        if shape[3] == [1, 2] and (len(pipes) + tps) % 2 == 0:
            # the join's last-listed parent is done long before the first-listed one
            ops[1].update({"ticks": 2 * tps + 3, "mem": 1, "read": 0})
            ops[2].update({"ticks": 1, "mem": 1, "read": 0})
        pipes.append({"prio": rng.choice([1, 2, 3]), "ops": ops})
    arrivals = [[] for _ in range(3 * tps)]
    for k in range(len(pipes)):
        arrivals[rng.randrange(len(arrivals)) if k else 0].append(k)
    return {"pipes": pipes, "arrivals": arrivals, "tps": tps}


def one_run(ctx, drv, rng, force_directed=False):
    global REPLAY_PLAN
    from eudoxia.simulator import run_simulator
    from eudoxia.executor.executor import Executor
    tps = rng.choice([1, 2, 4, 8, 16])
    # also intervals that are not a whole number of ticks (0.3 s at 8 ticks/s = 2.4 ticks): the promise is in seconds
    poll = rng.choice([F(1, 4), F(1, 2), F(1), F(2), F(5), F(3, 10), F(7, 10), F(3, 2), F(9, 4), F(3, 8), F(11, 10)])
    multi = rng.random() < 0.5
    sus_prob = rng.choice([0.0, 0.5])
    heavy = rng.random() < 0.35
    if heavy:
        # directed: the peer is called every tick and suspends whatever is suspendable (multi-operator containers at an operator boundary),
        # on pool 0 as well as on the others
        multi, sus_prob, poll = True, 0.9, F(1, tps)
    pack = heavy and rng.random() < 0.5
    chorus = None
    if pack:
        # directed: identical three-operator chains arriving together on one pool of eight CPUs: they start side by side, reach every operator boundary in the
        # same tick, and the peer's reply then suspends several containers of the same pool at once
        k, n = rng.randint(1, 3), rng.randint(2, 4)
        chorus = {"pipes": [{"prio": rng.choice([2, 3]), "ops": [{"parents": [], "ticks": k, "mem": 1, "read": 0}, {"parents": [0], "ticks": k + 1, "mem": 1, "read": 0},
                                                                  {"parents": [1], "ticks": k, "mem": 1, "read": 0}]} for _ in range(n)],
                  "arrivals": [list(range(n))], "tps": tps}
    twins = (not heavy) and rng.random() < 0.3
    dag = (not heavy) and (not twins) and rng.random() < 0.5
    directed = dag and rng.random() < 0.4
    if force_directed:
        heavy, pack, chorus, twins, dag, directed, multi = False, False, None, False, True, True, False
    spec = dag_spec(rng, tps, directed) if dag else None
    if force_directed == "join":
        # a join whose last-listed parent is done long before its first-listed one, the two branches in separate containers: for many calls the join's
        # `parents_complete` must stay false
        directed = False
        spec = {"pipes": [{"prio": rng.choice([1, 2, 3]), "ops": [{"parents": [], "ticks": 1, "mem": 1, "read": 0}, {"parents": [0], "ticks": 2 * tps + 3, "mem": 1, "read": 0},
                                                                  {"parents": [0], "ticks": 1, "mem": 1, "read": 0}, {"parents": [1, 2], "ticks": 1, "mem": 1, "read": 0}]}],
                "arrivals": [[0]], "tps": tps}
    if dag:
        poll = rng.choice([F(1, tps), F(1, tps), F(2, tps)])
    if directed:
        multi, poll = False, F(1, tps)
    over = (not heavy) and (not directed) and rng.random() < 0.25
    esc = random.Random(tps * 8 + 4 * int(bool(multi)) + 2 * int(bool(over)) + int(bool(dag)))
    peer = Peer(rng, sus_prob, multi, retry=directed or (dag and rng.random() < 0.6), frac=rng.random() < 0.4, over=over,
                escalate=(esc if esc.random() < 0.6 or pack else None), pack=pack, parents={f"d{k}": [o["parents"] for o in p["ops"]] for k, p in enumerate(spec["pipes"])} if dag else None)
    srv = serve(peer)
    params = {"duration": rng.choice([20, 40]), "ticks_per_second": tps, "waiting_seconds_mean": rng.choice([0.5, 2.0, 6.0]),
              "num_pipelines": rng.randint(1, 3), "num_operators": 4 if heavy else rng.choice([2, 4]), "num_pools": rng.choice([1, 2, 3]), "cpus_per_pool": 8,
              "ram_gb_per_pool": rng.choice([64, 128, 256]), "multi_operator_containers": multi, "random_seed": rng.randint(0, 10 ** 6),
              "rest_scheduler_addr": f"127.0.0.1:{srv.server_port}", "rest_poll_interval": float(poll)}
    if over:
        params["allow_memory_overcommit"] = True
    if dag:
        params.update({"ram_gb_per_pool": 64, "num_pools": rng.choice([2, 2, 3]), "duration": rng.choice([20, 30]), "rest_poll_interval": float(poll)})
    if chorus:
        params.update({"num_pools": 1, "ram_gb_per_pool": 64, "duration": 20})
    if twins:
        # directed: identical (query) pipelines arriving together on several pools finish in the same tick, i.e. between the same two calls
        params.update({"query_prob": 1.0, "interactive_prob": 0.0, "batch_prob": 0.0, "num_pipelines": rng.randint(2, 3), "num_pools": rng.choice([2, 3]),
                       "waiting_seconds_mean": rng.choice([2.0, 6.0])})
    # give the peer a handle on the real executor (created inside run_simulator)
    orig_init = Executor.__init__

    def spy_init(self, *a, **kw):
        orig_init(self, *a, **kw)
        peer.executor = self
    Executor.__init__ = spy_init
    try:
        if chorus:
            spec, dag = chorus, True
        stats, rec = layer_m.run_recorded(params, "rest", det_run.fixed_workload(spec) if dag else None)
    except Exception as e:
        return viol(ctx, "raised", f"the run driven over HTTP raised {type(e).__name__}: {e}", {"params": params})
    finally:
        Executor.__init__ = orig_init
        srv.shutdown()
        srv.server_close()
    ctx.coverage["evaluations"] += 1
    ctx.sit("http_runs")
    ctx.sit("http_calls", len(peer.calls))
    case = {"params": {k: v for k, v in params.items() if k != "rest_scheduler_addr"}, "workload": spec, "retry": peer.retry}
    n = len(rec.arrivals)
    pid_no = {p.pipeline_id: i for i, p in enumerate(rec.pipelines)}
    # ---- when calls are made, and what the pipeline lists contain: against the Lean model of the bookkeeping
    done_at = {}
    for t, ex in enumerate(rec.exec):
        for p in ex["done"]:
            done_at[pid_no[p.pipeline_id]] = t
    ins = []
    for t in range(n):
        results_in = rec.exec[t - 1]["results"] if t > 0 else []
        comp = [k for k, td in done_at.items() if td < t]
        ins.append([[pid_no[p.pipeline_id] for p in rec.arrivals[t]], int(bool(results_in)), comp])
    m = drv.send(f"rest {tps} {poll.numerator} {poll.denominator} " + json.dumps(ins, separators=(",", ":")))["calls"]
    want = [c for c in m if c is not None]
    got = []
    for body, reply, snap in peer.calls:
        got.append({"tick": body["tick"], "new": [pid_no[p["pipeline_id"]] for p in body["new_pipelines"]],
                    "other": [[pid_no[p["pipeline_id"]], int(p["is_complete"])] for p in body["other_pipelines"]]})
    if got != want:
        k = next((i for i in range(min(len(got), len(want))) if got[i] != want[i]), min(len(got), len(want)))
        return viol(ctx, "protocol-bookkeeping", f"call {k}: the request carries {got[k] if k < len(got) else None}; the protocol promises {want[k] if k < len(want) else None} "
                    "(when a call is made / new vs known pipelines / completion reported once)", case)
    # ---- every call carries the true current state
    for i, (body, reply, snap) in enumerate(peer.calls):
        t = body["tick"] - 1
        if abs(body["sim_time_seconds"] - body["tick"] / tps) > 1e-12:
            return viol(ctx, "payload-state", f"call {i}: sim_time_seconds {body['sim_time_seconds']} is not tick/tps", case)
        res_in = rec.exec[t - 1]["results"] if t > 0 else []
        if [(r["container_id"], r["error"], r["pool_id"]) for r in body["results"]] != [(r.container_id, r.error, r.pool_id) for r in res_in]:
            return viol(ctx, "payload-results", f"call {i} (tick {t}): the results in the request are not the results of the previous tick", case)
        for pool_body, pool_true in zip(body["pools"], snap):
            if (pool_body["avail_cpu"], pool_body["avail_ram_gb"], pool_body["consumed_ram_gb"]) != (pool_true["avail_cpu"], pool_true["avail_ram_gb"], pool_true["consumed_ram_gb"]) or \
                    [(c["container_id"], c["cpu"], c["ram_gb"], c["current_memory_gb"], c["priority"]) for c in pool_body["active_containers"]] != [tuple(x) for x in pool_true["active"]] or \
                    [c["container_id"] for c in pool_body["suspending_containers"]] != pool_true["suspending"] or \
                    [c["container_id"] for c in pool_body["suspended_containers"]] != pool_true["suspended"]:
                return viol(ctx, "payload-state", f"call {i}: pool figures in the request differ from the executor's state", case)
        for p in body["new_pipelines"] + body["other_pipelines"]:
            for o in p["operators"]:
                if set(o.keys()) != OP_KEYS:
                    return viol(ctx, "payload-hides-needs", f"operator record has fields {sorted(o.keys())}; only {sorted(OP_KEYS)} may be sent", case)
                true = peer.op_snaps[i].get(o["id"])
                if true is None or [o["state"], o["parents_complete"]] != true or o["is_assignable_state"] != (o["state"] in ("pending", "failed")):
                    return viol(ctx, "payload-state", f"call {i} (tick {t}): operator {o['id']} of {p['pipeline_id']} is sent as {o}; its real state is {true}", case)
        # ---- decisions are executed exactly as given: same containers, same operators in the same order
        given = [(a["operator_ids"], a["cpu"], a["ram_gb"], a["pool_id"], a["priority"]) for a in reply["assignments"]]
        done = [([str(o.id) for o in a.ops], a.cpu, a.ram, a.pool_id, a.priority.name) for a in rec.exec[t]["asg"]] if t < n else given
        if given != done:
            return viol(ctx, "transparency", f"call {i} (tick {t}): the peer asked for {given}; the executor was handed {done}", case)
    # ---- transparency: the same decisions made by an in-process scheduler give the same statistics
    REPLAY_PLAN = {}
    op_ref = {}
    for p in rec.pipelines:
        for k, o in enumerate(p.values.node_lookup.values()):
            op_ref[str(o.id)] = (p.pipeline_id, k)
    for (body, reply, snap) in peer.calls:
        pos = {c[0]: (pi, j) for pi, pool in enumerate(snap) for j, c in enumerate(pool["active"])}
        REPLAY_PLAN[body["tick"]] = {"asg": [{"ops": [op_ref[x] for x in a["operator_ids"]], "cpu": a["cpu"], "ram": a["ram_gb"], "prio": a["priority"], "pool": a["pool_id"]}
                                             for a in reply["assignments"]],
                                     "sus": [pos[s["container_id"]] for s in reply["suspensions"]]}
    register_replay()
    p2 = {k: v for k, v in params.items() if not k.startswith("rest_")}
    p2["scheduler_algo"] = "verif_replay"
    try:
        stats2 = run_simulator(p2, workload=det_run.fixed_workload(spec)) if dag else run_simulator(p2)
    except Exception as e:
        return viol(ctx, "transparency", f"replaying the peer's decisions in process raised {type(e).__name__}: {e}", case)
    if not stats_equal(stats, stats2):
        return viol(ctx, "transparency", f"HTTP-driven run and in-process replay of the same decisions differ: {stats.to_dict()} vs {stats2.to_dict()}", case)
    nsus = sum(len(r["suspensions"]) for _, r, _ in peer.calls)
    ctx.sit("suspensions_issued_by_peer", nsus)
    ctx.sit("suspensions_issued_on_pool_0", sum(1 for _, r, _ in peer.calls for x in r["suspensions"] if x["pool_id"] == 0))
    # executed exactly as given: every suspension the peer issued must have reached the executor
    nexec = sum(len(e["sus"]) for e in rec.exec[:n])      # [:n]: the in-process replay above appended its own ticks to the recorder
    if nexec != nsus:
        return viol(ctx, "transparency", f"the peer issued {nsus} suspensions, the executor received {nexec}", case)
    ctx.sit("containers_mixing_two_pipelines", getattr(peer, "mixed", 0))
    ctx.sit("dag_workload_runs", int(dag))
    ctx.sit("overcommit_runs", int(over))
    ctx.sit("calls_showing_negative_free_ram", sum(1 for _, _, snap in peer.calls if snap and any(pl["avail_ram_gb"] < 0 for pl in snap)))
    ctx.sit("assignments_with_fractional_cpu_or_ram", getattr(peer, "fractional", 0))
    ctx.sit("failed_operators_retried", getattr(peer, "retried", 0))
    ctx.sit("containers_given_another_priority_than_their_pipeline", getattr(peer, "escalated", 0))
    ctx.sit("replies_suspending_several_containers_of_one_pool", getattr(peer, "same_pool_sus", 0))
    ctx.sit("containers_given_in_a_non_pipeline_order", getattr(peer, "reordered", 0))
    ctx.sit("assignments_issued_by_peer", sum(len(r["assignments"]) for _, r, _ in peer.calls))
    ctx.sit("pipelines_reported_complete", sum(1 for c in got for _, f in c["other"] if f))
    ctx.sit("calls_reporting_several_completions", sum(1 for c in got if sum(1 for _, f in c["other"] if f) >= 2))
    ctx.coverage["distinct_nontrivial"] += 1 if stats.assignments > 0 else 0
    if len(ctx.coverage["samples"]) < 1:
        b = peer.calls[0][0]
        ctx.coverage["samples"].append({"params": case["params"], "first_request_keys": sorted(b.keys()), "first_reply": peer.calls[0][1], "calls": len(peer.calls)})


def run(ctx):
    rng = random.Random(ctx.seed)
    drv = Driver()
    try:
        for k in range(2 if ctx.quick() else 8):
            one_run(ctx, drv, random.Random(ctx.seed * 31 + k), force_directed=True)       # the alternating-siblings scenario, in every check
            one_run(ctx, drv, random.Random(ctx.seed * 37 + k), force_directed="join")     # and the lop-sided join
        for _ in range(24 if ctx.quick() else 200):
            one_run(ctx, drv, rng)
    finally:
        drv.close()
    ctx.coverage["rule"] = ("run_simulator with scheduler_algo=rest against a loop-back http.server that records every request body and answers with a reference policy "
                            "(naive placement, optionally suspending suspendable containers); bodies compared with the executor's real state and with the Lean model of the "
                            "bookkeeping; the recorded decisions replayed by an in-process scheduler must give identical statistics; non-trivial = a run with assignments")
    ctx.assumptions.append("PARTIAL: sockets, JSON text and the `requests`/http.server stack are exercised, not modelled; the Go reference scheduler cannot be built here (no Go toolchain)")


def replay(ctx, rep):
    run(ctx)
