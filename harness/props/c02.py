"""C02 - operator lifecycle follows the documented state machine; completion is final"""
import itertools, sys
import elayer
from common import Driver, REPO
from props.ecommon import mix
from props.c01 import all_dags

PROJ = {"st": True, "cnt": True, "A": [0, 5, 7], "S": [0, 4, 5]}
STATES = "PARSCF"


def exhaustive_requests(ctx, depth):
    """all DAGs on <= 3 operators x all sequences of (operator, target state) requests to the given depth:
    return/raise, states and counts of the real PipelineRuntimeStatus against the model after every request"""
    if REPO not in sys.path:
        sys.path.insert(0, REPO)
    from eudoxia.workload.pipeline import Pipeline
    from eudoxia.workload import OperatorState
    from eudoxia.utils import Priority
    S = list(OperatorState)
    drv = Driver()
    n_hist = 0
    try:
        for n in (1, 2, 3):
            for dag in all_dags(n):
                reqs = [(o, t) for o in range(n) for t in range(6)]

                def build():
                    p = Pipeline("p", Priority.BATCH_PIPELINE)
                    ops = []
                    for par in dag:
                        ops.append(p.new_operator([ops[i] for i in par] if par else None))
                    return p, ops

                # DFS over request sequences; the implementation state is rebuilt by replaying the prefix
                def rec(prefix, d):
                    nonlocal n_hist
                    for (o, t) in reqs:
                        seq = prefix + [(o, t)]
                        p, ops = build()
                        rt = p.runtime_status()
                        drv.send("reset"); drv.send("cfg 1 64 1280 1 0 1 1 64"); drv.send("pipe 3")
                        for par in dag:
                            drv.send(f"op 0 {','.join(map(str, par)) if par else '-'}")
                        last = None
                        for (oo, tt) in seq:
                            before = ([rt.operator_states[x] for x in ops], dict(rt.state_counts))
                            try:
                                rt.transition(ops[oo], S[tt]); ok = True
                            except AssertionError:
                                ok = False
                            m = drv.send(f"trans 0 {oo} {tt}")
                            after = ([rt.operator_states[x] for x in ops], dict(rt.state_counts))
                            ist = "".join(STATES[S.index(x)] for x in after[0])
                            icnt = [after[1][s] for s in S]
                            if not ok and after != before:
                                ctx.violations.append({"what": f"a refused state change altered state or counts: dag {dag}, requests {seq}",
                                                       "layer": "status", "dag": dag, "requests": seq, "sig": {"clause": "refused-unchanged"}})
                                return False
                            if ok and not m["ok"] and m.get("err") == "badTransition":
                                # the documented table (the one the extractor has just read) has no such arrow, and the request went through
                                frm = STATES[S.index(before[0][oo])]
                                ctx.violations.append({"what": f"a state change that is not an arrow of the state machine was accepted: operator {oo} "
                                                               f"{frm} -> {STATES[tt]} (dag {dag}, requests {seq})" +
                                                               (" -- a COMPLETED operator changed state" if frm == "C" else ""),
                                                       "layer": "status", "dag": dag, "requests": seq, "sig": {"clause": "accepted-implies-arrow"}})
                                return False
                            if ok != m["ok"] or ist != m["st"][0] or icnt != m["cnt"][0]:
                                ctx.unproved.append({"kind": "correspondence", "component": "PipelineRuntimeStatus.transition",
                                                     "dag": dag, "requests": seq, "impl": [ok, ist, icnt], "model": m})
                                return False
                            last = ok
                        n_hist += 1
                        ctx.coverage["evaluations"] += 1
                        if d > 1 and last:
                            if not rec(seq, d - 1):
                                return False
                    return True
                if not rec([], depth):
                    return
    finally:
        drv.close()
        ctx.sit("request_histories", n_hist)
    ctx.coverage["exhaustive"] = True
    ctx.coverage["exhaustive_note"] = f"all DAGs on <= 3 operators x all request sequences whose proper prefixes are accepted, depth {depth}"


def assignment_requests(ctx, deep):
    """`Assignment(...)` is the other way operators change state: for all DAGs on <= 3 operators, every state reachable by <= 3 accepted requests, and every
    operator list of length <= 2 (<= 3 when deep) -- with repetitions, in any order, with and without `is_resume` -- the constructor must accept / refuse
    exactly as the model's `mkAssignment` does and leave the same states and counts (operators moved before a refusal stay ASSIGNED)"""
    if REPO not in sys.path:
        sys.path.insert(0, REPO)
    from eudoxia.workload.pipeline import Pipeline
    from eudoxia.workload import OperatorState
    from eudoxia.executor.assignment import Assignment
    from eudoxia.utils import Priority
    S = list(OperatorState)
    drv = Driver()
    n_cases = 0
    try:
        for n in (1, 2, 3):
            for dag in all_dags(n):
                def build(prefix):
                    p = Pipeline("p", Priority.BATCH_PIPELINE)
                    ops = []
                    for par in dag:
                        ops.append(p.new_operator([ops[i] for i in par] if par else None))
                    rt = p.runtime_status()
                    for (o, t) in prefix:
                        try:
                            rt.transition(ops[o], S[t])
                        except AssertionError:
                            return None
                    return p, ops, rt
                reqs = [(o, t) for o in range(n) for t in range(6)]
                prefixes, frontier = [[]], [[]]
                for _ in range(4 if deep else 3):          # three accepted requests reach COMPLETED and FAILED
                    frontier = [pf + [a] for pf in frontier for a in reqs if build(pf + [a]) is not None]
                    prefixes += frontier
                lists = [list(x) for k in range(1, (3 if deep else 2) + 1) for x in itertools.product(range(n), repeat=k)]
                for pf in prefixes:
                    for lst in lists:
                        for resume in (False, True):
                            p, ops, rt = build(pf)
                            drv.send("reset"); drv.send("cfg 1 64 1280 1 0 1 1 64"); drv.send("pipe 3")
                            for par in dag:
                                drv.send(f"op 0 {','.join(map(str, par)) if par else '-'}")
                            for (o, t) in pf:
                                drv.send(f"trans 0 {o} {t}")
                            ist0 = "".join(STATES[S.index(rt.operator_states[x])] for x in ops)
                            try:
                                Assignment(ops=[ops[i] for i in lst], cpu=1, ram=1, priority=Priority.BATCH_PIPELINE, pool_id=0, pipeline_id="p", is_resume=resume)
                                ok = True
                            except AssertionError:
                                ok = False
                            m = drv.send(f"assign 0 1 64 3 {','.join(f'0:{i}' for i in lst)}")
                            ist = "".join(STATES[S.index(rt.operator_states[x])] for x in ops)
                            icnt = [rt.state_counts[s_] for s_ in S]
                            n_cases += 1
                            ctx.coverage["evaluations"] += 1
                            hist = [sum(1 for x in ops if rt.operator_states[x] == s_) for s_ in S]
                            case = {"dag": dag, "prefix": pf, "assignment": lst, "is_resume": resume}
                            # what the PROPERTY fixes: the verdict (a list with an operator that may not become ASSIGNED at its turn -- wrong state, or a
                            # second time in the same list -- is refused, any other accepted); after an acceptance every listed operator is ASSIGNED and
                            # nothing else moved; always: counts = histogram, and a COMPLETED operator stays COMPLETED.  What becomes of the *other* operators
                            # of a refused list is not fixed by the property (the code leaves the ones before the refusal ASSIGNED): a difference there
                            # breaks the correspondence, not the property
                            comp_moved = [k for k, ch in enumerate(ist0) if ch == "C" and ist[k] != "C"]
                            # the only arrow the constructor may take is "-> ASSIGNED": an operator that is now in any other state than before (a FAILED
                            # one put "back" to PENDING by a roll-back, say) has left the table, accepted list or refused
                            off_table = [k for k in range(len(ist)) if ist[k] != ist0[k] and ist[k] != "A"]
                            if ok != m["ok"] or icnt != hist or comp_moved or off_table or (ok and (ist != m["st"][0] or icnt != m["cnt"][0])):
                                what = (f"Assignment(ops={lst}, is_resume={resume}) after the requests {pf} on the DAG {dag}: "
                                        f"{'accepted' if ok else 'refused'}, states {ist0} -> {ist}, counts {icnt}; the state machine says "
                                        f"{'accepted' if m['ok'] else 'refused'}, states {m['st'][0]}, counts {m['cnt'][0]}")
                                ctx.violations.append({"what": what, "layer": "status", "assign_case": case, "sig": {"clause": "assignment-constructor"}})
                                return
                            if ist != m["st"][0] or icnt != m["cnt"][0]:
                                if len(ctx.unproved) < 3:
                                    ctx.unproved.append({"kind": "correspondence", "component": "Assignment.__init__ (state left behind by a refused list)",
                                                         "case": case, "impl": [ok, ist, icnt], "model": m})
                                continue        # keep looking: a later case may show a failing input of the property itself
    finally:
        drv.close()
        ctx.sit("assignment_constructor_cases", n_cases)


def status_survives(ctx):
    """no operator changes state without a request: not when the pipeline's status object is asked for again, not when the pipeline grows while it runs
    (an operator added late), not when an arrival is recorded a second time (refused or ignored, never a fresh start)"""
    from eudoxia.workload.pipeline import Pipeline
    from eudoxia.workload import OperatorState as S
    from eudoxia.utils import Priority
    for variant in ("asked-again", "operator-added-late", "arrival-recorded-twice", "iterated-again"):
        p = Pipeline("s", Priority.BATCH_PIPELINE)
        a = p.new_operator(None)
        b = p.new_operator([a])
        c = p.new_operator([b])
        rs = p.runtime_status()
        rs.record_arrival(3)
        for op, path in ((a, (S.ASSIGNED, S.RUNNING, S.COMPLETED)), (b, (S.ASSIGNED, S.RUNNING))):
            for t in path:
                op.transition(t)
        before = [x.state() for x in (a, b, c)]
        if variant == "operator-added-late":
            p.new_operator([c])
        elif variant == "arrival-recorded-twice":
            try:
                p.runtime_status().record_arrival(9)
            except AssertionError:
                pass
        elif variant == "iterated-again":
            list(p.values), list(p.values)
        after = [x.state() for x in (a, b, c)]
        rs2 = p.runtime_status()
        hist = {st: sum(1 for x in rs2.operator_states.values() if x == st) for st in S}
        ctx.coverage["evaluations"] += 1
        ctx.sit("status_survives_" + variant)
        refused = True
        try:
            a.transition(S.ASSIGNED)
            refused = False
        except BaseException:
            pass
        if after != before or any(rs2.state_counts[st] != hist[st] for st in S) or not refused:
            ctx.violations.append({"what": f"operators in the states {[x.name for x in before]} ({variant.replace('-', ' ')}): afterwards they are in "
                                           f"{[x.name for x in after]}, the per-state counts are {dict((k.name, v) for k, v in rs2.state_counts.items())}"
                                           + ("" if refused else "; the COMPLETED operator could be ASSIGNED again"),
                                   "layer": "W", "case": {"variant": variant}, "sig": {"clause": "unrequested-change"}})
            return


def run(ctx):
    status_survives(ctx)
    exhaustive_requests(ctx, 3 if ctx.quick() else 4)
    assignment_requests(ctx, not ctx.quick())
    k = 1 if ctx.quick() else 8
    elayer.run_scenarios(ctx, "C02", mix(ctx, 120 * k, 40 * k, 0, 20 * k, 20 * k, bias={"unknown_pool": 0, "zero_frac": 0}), PROJ)


def replay(ctx, rep):
    if "assign_case" in rep:
        assignment_requests(ctx, len(rep["assign_case"]["assignment"]) > 2)
    elif "requests" in rep:
        exhaustive_requests(ctx, 3)
    else:
        elayer.replay_scenario(ctx, "C02", rep, PROJ)
