"""C02 - operator lifecycle follows the documented state machine; completion is final"""
import itertools, sys
import elayer
from common import Driver, REPO
from props.ecommon import mix
from props.c01 import all_dags

PROJ = {"st": True, "cnt": True, "A": [0, 5, 7], "S": [0, 4, 5]}
STATES = "PARSCF"


def exhaustive_requests(ctx, depth):
    """all DAGs on <= 3 operators x all sequences of (operator, target state) requests to the given depth:
    return/raise, states and counts of the real PipelineRuntimeStatus against the model after every request"""
    if REPO not in sys.path:
        sys.path.insert(0, REPO)
    from eudoxia.workload.pipeline import Pipeline
    from eudoxia.workload import OperatorState
    from eudoxia.utils import Priority
    S = list(OperatorState)
    drv = Driver()
    n_hist = 0
    try:
        for n in (1, 2, 3):
            for dag in all_dags(n):
                reqs = [(o, t) for o in range(n) for t in range(6)]

                def build():
                    p = Pipeline("p", Priority.BATCH_PIPELINE)
                    ops = []
                    for par in dag:
                        ops.append(p.new_operator([ops[i] for i in par] if par else None))
                    return p, ops

                # DFS over request sequences; the implementation state is rebuilt by replaying the prefix
                def rec(prefix, d):
                    nonlocal n_hist
                    for (o, t) in reqs:
                        seq = prefix + [(o, t)]
                        p, ops = build()
                        rt = p.runtime_status()
                        drv.send("reset"); drv.send("cfg 1 64 1280 1 0 1 1 64"); drv.send("pipe 3")
                        for par in dag:
                            drv.send(f"op 0 {','.join(map(str, par)) if par else '-'}")
                        last = None
                        for (oo, tt) in seq:
                            before = ([rt.operator_states[x] for x in ops], dict(rt.state_counts))
                            try:
                                rt.transition(ops[oo], S[tt]); ok = True
                            except AssertionError:
                                ok = False
                            m = drv.send(f"trans 0 {oo} {tt}")
                            after = ([rt.operator_states[x] for x in ops], dict(rt.state_counts))
                            ist = "".join(STATES[S.index(x)] for x in after[0])
                            icnt = [after[1][s] for s in S]
                            if not ok and after != before:
                                ctx.violations.append({"what": f"a refused state change altered state or counts: dag {dag}, requests {seq}",
                                                       "layer": "status", "dag": dag, "requests": seq, "sig": {"clause": "refused-unchanged"}})
                                return False
                            if ok != m["ok"] or ist != m["st"][0] or icnt != m["cnt"][0]:
                                ctx.unproved.append({"kind": "correspondence", "component": "PipelineRuntimeStatus.transition",
                                                     "dag": dag, "requests": seq, "impl": [ok, ist, icnt], "model": m})
                                return False
                            last = ok
                        n_hist += 1
                        ctx.coverage["evaluations"] += 1
                        if d > 1 and last:
                            if not rec(seq, d - 1):
                                return False
                    return True
                if not rec([], depth):
                    return
    finally:
        drv.close()
        ctx.sit("request_histories", n_hist)
    ctx.coverage["exhaustive"] = True
    ctx.coverage["exhaustive_note"] = f"all DAGs on <= 3 operators x all request sequences whose proper prefixes are accepted, depth {depth}"


def run(ctx):
    exhaustive_requests(ctx, 3 if ctx.quick() else 4)
    k = 1 if ctx.quick() else 8
    elayer.run_scenarios(ctx, "C02", mix(ctx, 120 * k, 40 * k, 0, 20 * k, 20 * k, bias={"unknown_pool": 0, "zero_frac": 0}), PROJ)


def replay(ctx, rep):
    if "requests" in rep:
        exhaustive_requests(ctx, 3)
    else:
        elayer.replay_scenario(ctx, "C02", rep, PROJ)
