"""Directed scenario generation for layer E, steered by the *model's* state (so a scenario depends only
on the seed and the generator, never on the implementation under test)."""
import random
from fractions import Fraction as F
from common import Driver, fstr
from layer_e import quantum, to_q, exact_cpu_ticks, setup_lines, order_lines, step_line, Impl, LAWS

GB = [F(1, 64), F(1, 8), F(1, 2), 1, 2, 4, 8, 16, 32, 64]
READS = [0, F(5, 16), F(5, 8), F(5, 2), 5, 10, 20, 40]


def gen_pipes(rng, tps, npipes, max_ops=5, laws=("const",), zero_frac=0.05, profile="mixed"):
    pipes = []
    for _ in range(npipes):
        n = rng.randint(1, max_ops)
        shape = rng.choice(["random", "chain", "diamond", "fan", "multiroot"])
        ops = []
        for i in range(n):
            if shape == "chain":
                par = [i - 1] if i else []
            elif shape == "diamond" and n >= 4:
                par = [] if i == 0 else ([0] if i in (1, 2) else ([1, 2] if i == 3 else [i - 1]))
            elif shape == "fan":
                par = [0] if i else []
            elif shape == "multiroot":
                par = [] if i < 2 else sorted(rng.sample(range(i), min(i, rng.randint(1, 2))))
            else:
                k = rng.randint(0, min(3, i))
                par = sorted(rng.sample(range(i), k))
            segs = []
            for _s in range(rng.choice([1, 1, 1, 2, 3])):
                law = rng.choice(laws)
                if rng.random() < zero_frac:
                    base = rng.choice([F(0), F(1, 4 * tps)])
                else:
                    base = F(rng.choice([1, 1, 2, 3, 5, 8, 13]), tps) * rng.choice([1, 1, 2])
                if profile == "fixed":
                    fixed = rng.choice([F(1, 2), 1, 4, 16])
                elif profile == "growing":
                    fixed = None
                else:
                    fixed = rng.choice([None, None, None, 0, F(1, 2), 1, 4, 16])
                read = rng.choice(READS if rng.random() > zero_frac else [0])
                segs.append({"base": fstr(base), "law": law, "fixed": None if fixed is None else fstr(fixed), "read": fstr(read)})
            ops.append({"parents": par, "segs": segs})
        pipes.append({"prio": rng.choice([1, 2, 3, 3]), "ops": ops})
    return pipes


def peak_gb(op):
    return max([F(s["fixed"]) if s["fixed"] is not None else F(s["read"]) for s in op["segs"]] + [F(0)])


class GenE:
    """builds a scenario step by step while watching the model"""
    def __init__(self, rng, cfg, pipes, drv):
        self.rng, self.cfg, self.pipes, self.drv = rng, cfg, pipes, drv
        self.sc = {"layer": "E", "cfg": cfg, "pipes": pipes, "steps": []}
        if rng.random() < 0.35:
            # before building an assignment the pipeline's assignable operators are listed without the dependency filter, as naive and priority do
            # in multi-operator mode in every round: a listing decides nothing and must leave nothing behind
            self.sc["listing"] = True
        if rng.random() < 0.35:
            # every assignment of the scenario carries these flags (as a REST peer may send them): admission and accounting must not depend on them
            self.sc["flags"] = {"is_resume": rng.random() < 0.75, "force_run": rng.random() < 0.4}
        self.q, self.g = quantum(cfg["tps"])
        self.order = Impl(self.sc).order
        drv.send("reset")
        self.pre = drv.batch(setup_lines(self.sc) + order_lines(self.sc, self.order))
        self.obs = []
        self.state = None          # last model world
        self.dead = False
        self.first = []
        g = 0
        for p in pipes:
            self.first.append(g)
            g += len(p["ops"])
        self.st = [["P"] * len(p["ops"]) for p in pipes]
        self.stats = {}

    def count(self, k, n=1):
        self.stats[k] = self.stats.get(k, 0) + n

    def emit(self, st):
        self.sc["steps"].append(st)
        o = self.drv.send(step_line(self.sc, st, self.q))
        self.obs.append(o)
        if "st" in o:
            self.st = [list(x) for x in o["st"]]
        if st[0] == "tick":
            if o.get("state"):
                self.state = o["state"]
                self.st = [list(x) for x in o["state"]["st"]]
            elif not o["ok"]:
                self.dead = True
        return o

    def ready(self, pid, oid):
        return all(self.st[pid][p] == "C" for p in self.pipes[pid]["ops"][oid]["parents"])

    def safe_cpu(self, refs, cpu):
        tps = self.cfg["tps"]
        for p, o in refs:
            for s in self.pipes[p]["ops"][o]["segs"]:
                if not exact_cpu_ticks(s["base"], s["law"], cpu, tps)[1]:
                    return False
        return True

    def pools(self):
        if self.state:
            return self.state["pools"]
        c = self.cfg
        return [{"ac": c["cpus"], "ar": to_q(c["ram"], self.q), "A": [], "S": [], "D": []} for _ in range(c["npools"])]

    def assign(self, pool, cpu, ram, refs, prio=None):
        if refs and not self.safe_cpu(refs, max(cpu, 1)):
            self.count("discard_unsafe_float")
            return None
        prio = prio if prio is not None else (self.pipes[refs[0][0]]["prio"] if refs else 3)
        o = self.emit(["assign", pool, cpu, fstr(ram), prio, [list(r) for r in refs]])
        self.count("assign_ok" if o["ok"] else "assign_err_" + o["err"])
        return o

    def tick(self):
        o = self.emit(["tick"])
        if o["ok"]:
            for r in o["res"]:
                self.count("res_ok" if r[1] else "res_fail")
        else:
            self.count("tick_err_" + o["err"])
        return o


def sensible_refs(g, pid, multi):
    cand = [o for o in range(len(g.pipes[pid]["ops"])) if g.st[pid][o] in "PF"]
    if not cand:
        return []
    if multi:
        return [(pid, o) for o in cand]
    rdy = [o for o in cand if g.ready(pid, o)]
    return [(pid, rdy[0])] if rdy else []


def gen_generic(seed, nticks=40, laws=("const",), over=None, tps_choices=(1, 2, 4, 8, 16, 64), drv=None, bias=None):
    """a weighted mix of admissible and inadmissible commands"""
    rng = random.Random(seed)
    bias = bias or {}
    tps = rng.choice(tps_choices)
    cfg = {"tps": tps, "multi": rng.random() < 0.65, "over": (rng.random() < 0.4) if over is None else over,
           "npools": rng.choice([1, 1, 2, 3]), "cpus": rng.choice([1, 2, 4, 8, 16]),
           "ram": fstr(rng.choice([F(1, 2), 2, 8, 32, 64, 100]))}
    pipes = gen_pipes(rng, tps, rng.randint(2, 6), laws=laws, zero_frac=bias.get("zero_frac", 0.04), profile=bias.get("profile", "mixed"))
    own = drv is None
    drv = drv or Driver()
    try:
        g = GenE(rng, cfg, pipes, drv)
        ramq = F(cfg["ram"])
        for t in range(nticks):
            if g.dead:
                break
            pools = g.pools()
            for _ in range(rng.choice([0, 1, 1, 1, 2, 3])):
                pid = rng.randrange(len(pipes))
                mode = rng.random()
                if mode < bias.get("sensible", 0.65):
                    refs = sensible_refs(g, pid, cfg["multi"] and rng.random() < 0.7)
                    if not refs:
                        continue
                else:
                    n = len(pipes[pid]["ops"])
                    sel = sorted(rng.sample(range(n), rng.randint(0, n)))
                    if rng.random() < 0.3:
                        rng.shuffle(sel)
                    refs = [(pid, o) for o in sel]
                pool = rng.randrange(cfg["npools"]) if rng.random() > bias.get("unknown_pool", 0.02) else rng.choice([cfg["npools"], cfg["npools"] + 2, -1, -1, -2])
                pk = max([peak_gb(pipes[p]["ops"][o]) for p, o in refs] + [F(1, 64)])
                wild = rng.random() < bias.get("wild_amounts", 0.25)
                ram = rng.choice([pk, pk, pk + F(1, 64), max(pk - F(1, 64), F(1, 64)), F(1, 2), 2] + ([4, ramq, F(0), ramq * 2] if wild else []))
                cpu = rng.choice([1, 1, 2] + ([cfg["cpus"], 0, cfg["cpus"] + 1] if wild else []))
                if not wild:
                    pl = pools[pool] if 0 <= pool < len(pools) else None
                    if pl is None or pl["ac"] < cpu or (not cfg["over"] and pl["ar"] < to_q(ram, g.q)):
                        continue
                g.assign(pool, cpu, ram, refs)
            for pi, p in enumerate(pools):
                for c in p["A"]:
                    r = rng.random()
                    if (c[4] and r < bias.get("suspend", 0.5)) or r < bias.get("bad_suspend", 0.03):
                        g.emit(["suspend", pi if rng.random() > bias.get("unknown_pool", 0.02) else rng.choice([cfg["npools"], -1]), c[0]])
                        g.count("suspend_req_legal" if c[4] else "suspend_req_illegal")
            if rng.random() < bias.get("bad_suspend", 0.03) / 3:
                g.emit(["suspend", 0, 999])
                g.count("suspend_req_unknown")
            g.tick()
        g.sc["order"] = g.order
        return g
    finally:
        if own:
            drv.close()


# ---------------------------------------------------------------- directed generators

def _mk(rng, cfg, pipes, drv):
    return GenE(rng, cfg, pipes, drv)


def simple_op(tps, ticks, read="0", fixed=None, parents=()):
    return {"parents": list(parents), "segs": [{"base": fstr(F(ticks, tps)), "law": "const",
                                                "fixed": None if fixed is None else fstr(fixed), "read": read}]}


def gen_suspension(seed, drv):
    """multi-operator containers suspended at operator boundaries; write-outs of 1, 2 and many ticks run to their
    end; the remaining work is assigned again; requests at every tick of a container's life"""
    rng = random.Random(seed)
    tps = rng.choice([1, 2, 4, 8, 16, 64])
    ram_pool = rng.choice([F(1, 2), 2, 8, 32, 64])
    cfg = {"tps": tps, "multi": True, "over": rng.random() < 0.3, "npools": rng.choice([1, 2]), "cpus": rng.choice([2, 4, 8]),
           "ram": fstr(ram_pool)}
    pipes = []
    for _ in range(rng.randint(1, 3)):
        n = rng.randint(2, 4)
        pipes.append({"prio": rng.choice([1, 2, 3]), "ops": [simple_op(tps, rng.randint(1, 3), fixed=rng.choice([F(1, 64), F(1, 8)]),
                                                                       parents=[i - 1] if i else []) for i in range(n)]})
    g = _mk(rng, cfg, pipes, drv)
    q, gg = g.q, g.g
    # allocations giving write-outs of 0->1, 1, 2, many ticks
    allocs = [F(gg, q) * k for k in (F(1, 2), 1, 2, rng.randint(3, 12))]
    allocs = [a for a in allocs if a <= ram_pool and (a * 64).denominator == 1] or [F(1, 64)]
    every_tick = rng.random() < 0.4
    for pid in range(len(pipes)):
        refs = sensible_refs(g, pid, True)
        g.assign(rng.randrange(cfg["npools"]), 1, rng.choice(allocs), refs)
    for t in range(60):
        if g.dead:
            break
        for pi, p in enumerate(g.pools()):
            for c in p["A"]:
                if c[4] and rng.random() < 0.8:
                    g.emit(["suspend", pi, c[0]]); g.count("suspend_req_legal")
                elif every_tick and rng.random() < 0.25:
                    g.emit(["suspend", pi, c[0]]); g.count("suspend_req_illegal")
            for s_ in p["S"]:
                if rng.random() < 0.05:
                    g.emit(["suspend", pi, s_[0]]); g.count("suspend_req_suspending")
            for d_ in p["D"]:
                if rng.random() < 0.004:
                    g.emit(["suspend", pi, d_]); g.count("suspend_req_suspended")
        # re-assign work that came back
        for pid in range(len(pipes)):
            if all(x in "PC" for x in g.st[pid]) and "P" in g.st[pid] and rng.random() < 0.6:
                refs = sensible_refs(g, pid, True)
                pool = rng.randrange(cfg["npools"])
                a = rng.choice(allocs)
                if g.pools()[pool]["ac"] >= 1 and g.pools()[pool]["ar"] >= to_q(a, q):
                    g.assign(pool, 1, a, refs)
        before = sum(len(p["S"]) for p in g.pools())
        o = g.tick()
        if o["ok"]:
            after_d = sum(len(p["D"]) for p in o["state"]["pools"])
            g.stats["suspended_total"] = after_d
    g.sc["order"] = g.order
    return g


def gen_suspend_oversell(seed, drv):
    """in the round that (legally) suspends a container, the same pool is handed an assignment that fits only if the suspended container's share
    were already free: a suspending container keeps its whole allocation until its write-out ends, so the batch must be refused"""
    rng = random.Random(seed)
    tps = rng.choice([1, 2, 4, 8])
    ram_pool = rng.choice([32, 64])
    cfg = {"tps": tps, "multi": True, "over": False, "npools": rng.choice([1, 2]), "cpus": rng.choice([4, 8]), "ram": fstr(ram_pool)}
    pipes = []
    nb = rng.randint(1, 2)
    for _ in range(nb):
        n = rng.randint(2, 4)
        pipes.append({"prio": 3, "ops": [simple_op(tps, rng.randint(1, 3), fixed=F(1, 64), parents=[i - 1] if i else []) for i in range(n)]})
    extra = rng.randint(2, 5)
    for _ in range(extra):
        pipes.append({"prio": 3, "ops": [simple_op(tps, rng.randint(1, 3), fixed=F(1, 64))]})
    g = _mk(rng, cfg, pipes, drv)
    q = g.q
    share_c = rng.choice([2, 3])
    share_r = F(ram_pool, 4)
    for pid in range(nb):
        g.assign(rng.randrange(cfg["npools"]), share_c, share_r, sensible_refs(g, pid, True))
    nxt = nb
    for t in range(40):
        if g.dead:
            break
        for pi, p in enumerate(g.pools()):
            legal = [c for c in p["A"] if c[4]]
            if legal and nxt < len(pipes) and rng.random() < 0.8:
                c = legal[0]
                g.emit(["suspend", pi, c[0]]); g.count("suspend_req_legal")
                ac, ar = p["ac"], F(p["ar"], q)
                kind = rng.choice(["cpu", "ram", "both", "fits"])
                cpu = ac + (rng.randint(1, c[1]) if kind in ("cpu", "both") else 0)
                ram = ar + (F(rng.randint(1, int(share_r * 64)), 64) if kind in ("ram", "both") else 0)
                if kind == "fits":
                    cpu, ram = max(1, ac), ar
                if cpu >= 1 and ram > 0:
                    g.assign(pi, cpu, ram, [(nxt, 0)])
                    g.count("assignment_with_suspension_" + kind)
                    nxt += 1
        g.tick()
    g.sc["order"] = g.order
    return g


def gen_drain_during_writeout(seed, drv):
    """the last running container of a pool ends while another one is still being written out: the pool has no running container but is not idle --
    the suspending container keeps its whole allocation until its write-out ends"""
    rng = random.Random(seed)
    tps = rng.choice([1, 2, 4])
    cfg = {"tps": tps, "multi": True, "over": rng.random() < 0.3, "npools": rng.choice([1, 2]), "cpus": rng.choice([2, 4, 8]), "ram": "64"}
    k = rng.randint(1, 2)
    pipes = [{"prio": 3, "ops": [simple_op(tps, k, fixed=F(1, 8)), simple_op(tps, rng.randint(2, 5), fixed=F(1, 8), parents=[0])]},
             {"prio": 2, "ops": [simple_op(tps, k + rng.randint(1, 3), fixed=F(1, 8))]}]
    g = _mk(rng, cfg, pipes, drv)
    q, gg = g.q, g.g
    pool = rng.randrange(cfg["npools"])
    long_alloc = F(gg, q) * rng.randint(4, 9)              # a write-out of that many ticks
    g.assign(pool, 1, long_alloc if long_alloc <= 48 else 32, sensible_refs(g, 0, True))
    g.assign(pool, 1, 1, sensible_refs(g, 1, True))
    for t in range(k + 16):
        if g.dead:
            break
        for pi, p in enumerate(g.pools()):
            for c in p["A"]:
                if c[4]:
                    g.emit(["suspend", pi, c[0]]); g.count("suspend_req_legal")
        before = [(len(p["A"]), len(p["S"])) for p in g.pools()]
        o = g.tick()
        if o["ok"] and any(b[0] > 0 and len(p["A"]) == 0 and len(p["S"]) > 0 for b, p in zip(before, o["state"]["pools"])):
            g.count("pool_drained_while_a_write_out_is_in_progress")
    g.sc["order"] = g.order
    return g


def gen_oom_fast_clock(seed, drv):
    """the OOM checks at tick rates above 1000/s: growing containers with tiny allocations cross their own limit, and the pool its capacity, in consecutive
    ticks (odd and even ones) of a clock that ticks several times per millisecond; every single tick must end with everyone within limits"""
    rng = random.Random(seed)
    tps = rng.choice([2048, 4096, 32768])      # at 32768 ticks/s a growing container gains less than a MB per tick
    over = rng.random() < 0.5
    cfg = {"tps": tps, "multi": True, "over": over, "npools": 1, "cpus": 16, "ram": fstr(rng.choice([F(1, 8), F(1, 4), 1]))}
    pipes = [{"prio": 3, "ops": [simple_op(tps, rng.randint(0, 3), read="5")]} for _ in range(rng.randint(3, 7))]
    g = _mk(rng, cfg, pipes, drv)
    started = 0
    for t in range(24):
        if g.dead:
            break
        while started < len(pipes) and rng.random() < 0.5 and g.pools()[0]["ac"] >= 1:
            ram = F(rng.randint(1, 6), 64)
            if not over:
                ram = min(ram, F(g.pools()[0]["ar"], g.q))
                if ram <= 0:
                    break
            g.assign(0, 1, ram, sensible_refs(g, started, True))
            started += 1
        g.tick()
    g.count("fast_clock_oom_scenarios")
    g.sc["order"] = g.order
    return g


def gen_suspend_overcommitted(seed, drv):
    """memory overcommit on and the containers of a pool together hold more RAM than the pool has (free RAM negative); one of them is suspended: when its
    write-out ends exactly its allocation comes back -- free RAM may well stay negative"""
    rng = random.Random(seed)
    tps = rng.choice([1, 2, 4])
    ram_pool = rng.choice([8, 16])
    cfg = {"tps": tps, "multi": True, "over": True, "npools": 1, "cpus": 8, "ram": fstr(ram_pool)}
    n = rng.randint(3, 4)
    pipes = [{"prio": 3, "ops": [simple_op(tps, rng.randint(1, 2), fixed=F(1, 8)), simple_op(tps, rng.randint(6, 12), fixed=F(1, 8), parents=[0])]} for _ in range(n)]
    g = _mk(rng, cfg, pipes, drv)
    for pid in range(n):
        g.assign(0, 1, ram_pool, sensible_refs(g, pid, True))          # each container is allowed the whole pool
    asked = 0
    for t in range(20):
        if g.dead:
            break
        for c in g.pools()[0]["A"]:
            if c[4] and asked < 2:
                g.emit(["suspend", 0, c[0]]); g.count("suspend_req_legal")
                asked += 1
        o = g.tick()
        if o["ok"] and o["state"]["pools"][0]["ar"] < 0 and o["state"]["pools"][0]["D"]:
            g.count("write_out_ended_with_free_ram_still_negative")
    g.sc["order"] = g.order
    return g


def gen_suspend_while_others_grow(seed, drv):
    """overcommit: three containers use 60 of 64 GB; one of them (25 GB) is suspended in the very tick in which another one steps from 15 to 25 GB.  What is
    running then needs 45 GB -- no kill is needed; a stale total that still counts the suspended container would say 70"""
    rng = random.Random(seed)
    tps = rng.choice([1, 2, 4])
    cfg = {"tps": tps, "multi": True, "over": True, "npools": 1, "cpus": 8, "ram": "64"}
    k = rng.randint(1, 2)
    big = rng.choice([22, 25])
    pipes = [{"prio": 3, "ops": [simple_op(tps, k, fixed=15), simple_op(tps, rng.randint(4, 8), fixed=big, parents=[0])]},
             {"prio": 3, "ops": [simple_op(tps, rng.randint(8, 12), fixed=20)]},
             {"prio": 3, "ops": [simple_op(tps, k, fixed=big), simple_op(tps, rng.randint(4, 8), fixed=1, parents=[0])]}]
    g = _mk(rng, cfg, pipes, drv)
    order = [0, 1, 2]
    rng.shuffle(order)
    for pid in order:
        g.assign(0, 1, 64, sensible_refs(g, pid, True))
    for t in range(k + 10):
        if g.dead:
            break
        for c in g.pools()[0]["A"]:
            # the container of pipeline 2 (first operator `big` GB, then 1 GB) is the one to suspend, at its first boundary
            if c[4] and c[7] and c[7][0] == g.first[2]:
                g.emit(["suspend", 0, c[0]]); g.count("suspend_req_legal")
        o = g.tick()
    g.count("suspension_in_the_tick_another_container_grows")
    g.sc["order"] = g.order
    return g


def gen_pool_number_as_text(seed, drv):
    """a command whose pool number arrives as text ("1", as a careless external scheduler may send it): it names no pool the executor knows -- refused, with
    nothing started and nothing dropped on the floor -- while the well-formed commands around it are carried out"""
    rng = random.Random(seed)
    tps = rng.choice([1, 2, 4])
    cfg = {"tps": tps, "multi": True, "over": False, "npools": rng.choice([2, 3]), "cpus": 4, "ram": "16"}
    pipes = [{"prio": 3, "ops": [simple_op(tps, rng.randint(2, 4), fixed=F(1, 8))]} for _ in range(3)]
    g = _mk(rng, cfg, pipes, drv)
    g.assign(0, 1, 1, sensible_refs(g, 0, True))
    g.tick()
    g.assign(str(rng.randrange(cfg["npools"])), 1, 1, sensible_refs(g, 1, True))
    g.tick()
    g.tick()
    if rng.random() < 0.5:
        cs = [c for c in g.pools()[0]["A"]]
        if cs:
            g.emit(["suspend", str(0), cs[0][0]])
            g.tick()
    g.assign(1, 1, 1, sensible_refs(g, 2, True))
    for _ in range(4):
        g.tick()
    g.count("pool_number_as_text_scenarios")
    g.sc["order"] = g.order
    return g


def gen_cancel(seed, drv):
    """two memory changes in one pool in one tick that cancel exactly: container A finishes (its memory goes back) in the very tick in which
    container B starts an operator that needs that much more -- and more than B was allocated.  The pool's total does not move; B must be killed all the same"""
    rng = random.Random(seed)
    tps = rng.choice([1, 2, 4])
    cfg = {"tps": tps, "multi": True, "over": rng.random() < 0.3, "npools": rng.choice([1, 2]), "cpus": 8, "ram": fstr(rng.choice([32, 64]))}
    k = rng.randint(1, 3)
    mA = rng.choice([2, 4, 10])
    m1 = rng.choice([1, 5])
    pipes = [{"prio": 3, "ops": [simple_op(tps, k + 1, fixed=mA)]},
             {"prio": 3, "ops": [simple_op(tps, k, fixed=m1), simple_op(tps, rng.randint(2, 4), fixed=m1 + mA, parents=[0])]}]
    for _ in range(rng.randint(0, 2)):        # bystanders with constant memory
        pipes.append({"prio": 3, "ops": [simple_op(tps, rng.randint(4, 8), fixed=rng.choice([1, 2]))]})
    g = _mk(rng, cfg, pipes, drv)
    pool = rng.randrange(cfg["npools"])
    order = list(range(len(pipes)))
    rng.shuffle(order)
    for pid in order:
        alloc = {0: mA + rng.choice([0, 1]), 1: m1 + F(mA, 2)}.get(pid, 4)
        g.assign(pool, 1, alloc, sensible_refs(g, pid, True))
    for t in range(k + 8):
        if g.dead:
            break
        g.tick()
    g.count("cancelling_memory_scenarios")
    g.sc["order"] = g.order
    return g


def gen_sibling_suspend(seed, drv):
    """two containers of ONE pipeline (two branches of a fan-out, two operators each) are suspended with different allocations, i.e. write-outs
    of different lengths that overlap: each container's operators come back only when its own write-out ends"""
    rng = random.Random(seed)
    tps = rng.choice([1, 2, 4, 8])
    cfg = {"tps": tps, "multi": True, "over": False, "npools": rng.choice([1, 2]), "cpus": 8, "ram": fstr(64)}
    nb = rng.choice([2, 2, 3])
    ops = [simple_op(tps, 1, fixed=F(1, 64))]
    for b in range(nb):
        first = len(ops)
        ops.append(simple_op(tps, rng.randint(1, 2), fixed=F(1, 64), parents=[0]))
        ops.append(simple_op(tps, rng.randint(2, 4), fixed=F(1, 64), parents=[first]))
    pipes = [{"prio": 3, "ops": ops}]
    g = _mk(rng, cfg, pipes, drv)
    q, gg = g.q, g.g
    g.assign(0, 1, 1, [(0, 0)])
    for _ in range(4):
        g.tick()
        if g.st[0][0] == "C":
            break
    # write-outs of clearly different lengths
    lens = rng.sample([1, 2, 3, 5, 8], nb)
    for b in range(nb):
        alloc = F(gg, q) * lens[b]
        if alloc > 16 or (alloc * 64).denominator != 1:
            alloc = F(gg, q)
        g.assign(rng.randrange(cfg["npools"]), 1, alloc, [(0, 1 + 2 * b), (0, 2 + 2 * b)])
    for t in range(30):
        if g.dead:
            break
        for pi, p in enumerate(g.pools()):
            for c in p["A"]:
                if c[4] and rng.random() < 0.9:
                    g.emit(["suspend", pi, c[0]]); g.count("suspend_req_legal")
        g.tick()
        if sum(len(p["S"]) for p in g.pools()) >= 2:
            g.count("ticks_with_two_sibling_writeouts")
    g.sc["order"] = g.order
    return g


def gen_oversell(seed, drv):
    """batches around the free amounts of a pool: exactly fitting, one over in CPU, one quantum over in RAM, both"""
    rng = random.Random(seed)
    tps = rng.choice([1, 2, 4, 16])
    ram_pool = rng.choice([2, 8, 32])
    cfg = {"tps": tps, "multi": rng.random() < 0.5, "over": rng.random() < 0.4, "npools": rng.choice([1, 2, 3]),
           "cpus": rng.choice([2, 4, 8]), "ram": fstr(ram_pool)}
    pipes = [{"prio": 3, "ops": [simple_op(tps, rng.randint(1, 6), fixed=F(1, 64))]} for _ in range(rng.randint(6, 14))]
    g = _mk(rng, cfg, pipes, drv)
    q = g.q
    nxt = 0
    for t in range(30):
        if g.dead or nxt >= len(pipes):
            break
        pool = rng.randrange(cfg["npools"])
        p = g.pools()[pool]
        ac, ar = p["ac"], F(p["ar"], q)
        k = rng.randint(1, 3)
        kind = rng.choice(["fit", "fit", "cpu+1", "ram+1", "both", "small"])
        if ac >= k and ar >= F(k, 64) and nxt + k <= len(pipes):
            cpus = [ac // k] * k
            cpus[0] += ac - sum(cpus)
            rams = [(ar * 64 // k) / 64] * k
            rams[0] += ar - sum(rams)
            if kind in ("cpu+1", "both"):
                cpus[-1] += 1
            if kind in ("ram+1", "both"):
                rams[-1] += F(1, 64)
            if kind == "small":
                cpus = [1] * k
                rams = [F(1, 64)] * k
            if all(c >= 1 for c in cpus) and all(r > 0 for r in rams):
                for j in range(k):
                    g.assign(pool, cpus[j], rams[j], [(nxt, 0)])
                    nxt += 1
                g.count("batch_" + kind)
        g.tick()
    g.sc["order"] = g.order
    return g


def gen_oom(seed, drv, over=True):
    """several containers with growing memory on an overcommitted pool: the pool crosses its capacity at many moments"""
    rng = random.Random(seed)
    tps = rng.choice([1, 2, 4, 8])
    ram_pool = rng.choice([8, 16, 32, 64])
    cfg = {"tps": tps, "multi": True, "over": over, "npools": rng.choice([1, 1, 2]), "cpus": 16, "ram": fstr(ram_pool)}
    pipes = []
    for _ in range(rng.randint(3, 8)):
        n = rng.randint(1, 3)
        ops = []
        for i in range(n):
            read = rng.choice([F(5, 2), 5, 10, 20, 40])
            fixed = rng.choice([None, None, None, rng.choice([1, 4, 8, 16])])
            ops.append(simple_op(tps, rng.randint(0, 4), read=fstr(read), fixed=fixed, parents=[i - 1] if i else []))
        pipes.append({"prio": rng.choice([3, 3, 1, 1, 2]), "ops": ops})      # the killer looks at memory, not at who is a query
    g = _mk(rng, cfg, pipes, drv)
    started = 0
    for t in range(50):
        if g.dead:
            break
        while started < len(pipes) and rng.random() < 0.6:
            pool = rng.randrange(cfg["npools"])
            if g.pools()[pool]["ac"] < 1:
                break
            pk = max(peak_gb(o) for o in pipes[started]["ops"])
            ram = rng.choice([pk, pk * 2, pk + F(1, 64), max(pk / 2, F(1, 64)), F(ram_pool), max(pk - F(1, 64), F(1, 64))])
            if (F(ram) * 64).denominator != 1:
                ram = pk
            if not over:
                ram = min(F(ram), F(g.pools()[pool]["ar"], g.q))
                if ram <= 0:
                    break
            g.assign(pool, 1, ram, sensible_refs(g, started, True))
            started += 1
        o = g.tick()
        if o["ok"]:
            nf = sum(1 for r in o["res"] if not r[1])
            if nf >= 2:
                g.count("ticks_with_2plus_failures")
        # retry failed pipelines sometimes
        for pid in range(started):
            if "F" in g.st[pid] and all(x in "FCP" for x in g.st[pid]) and rng.random() < 0.3:
                pool = rng.randrange(cfg["npools"])
                if g.pools()[pool]["ac"] >= 1:
                    pk = max(peak_gb(o) for o in pipes[pid]["ops"])
                    ram = pk if over else min(pk, F(g.pools()[pool]["ar"], g.q))
                    if ram > 0:
                        g.assign(pool, 1, ram, sensible_refs(g, pid, True))
    g.sc["order"] = g.order
    return g


def gen_parents(seed, drv):
    """a start attempted with k of n parents complete (0 <= k <= n <= 3), as first operator of a container and as a later one"""
    rng = random.Random(seed)
    tps = rng.choice([1, 2, 4])
    n = rng.randint(1, 3)
    k = rng.randint(0, n)
    later = rng.random() < 0.5
    multi = True
    cfg = {"tps": tps, "multi": multi, "over": False, "npools": 1, "cpus": 8, "ram": "8"}
    ops = [simple_op(tps, rng.randint(1, 2), fixed=F(1, 64)) for _ in range(n)]
    ops.append(simple_op(tps, 1, fixed=F(1, 64), parents=list(range(n))))      # child, index n
    ops.append(simple_op(tps, 1, fixed=F(1, 64)))                               # independent operator, index n+1
    g = _mk(rng, cfg, [{"prio": 3, "ops": ops}], drv)
    done = rng.sample(range(n), k)
    for p in done:
        g.assign(0, 1, F(1, 64), [(0, p)])
    for _ in range(4):
        g.tick()
    refs = [(0, n + 1), (0, n)] if later else [(0, n)]
    g.assign(0, 1, F(1, 64), refs)
    g.count(f"start_k{k}_of_n{n}_{'later' if later else 'first'}")
    for _ in range(4):
        if g.dead:
            break
        g.tick()
    g.sc["order"] = g.order
    return g


def gen_opcount_midbatch(seed, drv, suspend_it=False):
    """single-operator containers: a batch in which a legal one-operator assignment is followed by one with two operators.  The pool's admission check lets the
    batch through, the operator-count check refuses it *after* the first container has started -- that container runs on, and its CPU and RAM must have been
    taken out of the pool; later a batch sized to the whole pool is submitted"""
    rng = random.Random(seed)
    tps = rng.choice([1, 2, 4])
    cpus = rng.choice([4, 8])
    cfg = {"tps": tps, "multi": False, "over": False, "npools": rng.choice([1, 2]), "cpus": cpus, "ram": "16"}
    small = F(1, 64)
    pipes = [{"prio": 3, "ops": [simple_op(tps, rng.randint(2, 4), fixed=small)]},
             {"prio": 2, "ops": [simple_op(tps, 1, fixed=small), simple_op(tps, 1, fixed=small, parents=[0])]},
             {"prio": 3, "ops": [simple_op(tps, rng.randint(1, 3), fixed=small)]},
             {"prio": 3, "ops": [simple_op(tps, 2, fixed=small)]}]
    g = _mk(rng, cfg, pipes, drv)
    pool = rng.randrange(cfg["npools"])
    if rng.random() < 0.5:
        g.assign(pool, 1, 1, [(2, 0)])
        g.tick()
    g.assign(pool, rng.choice([1, 2]), rng.choice([1, 2, 4]), [(0, 0)])
    g.assign(pool, 1, 1, [(1, 0), (1, 1)])
    g.count("opcount_refusal_after_a_started_container")
    if suspend_it:
        # the container started by the refused batch has not run a single tick: it has finished no operator (and holds one only), so it cannot be suspended
        g.tick()
        act = [] if g.dead else g.pools()[pool]["A"]
        if act:
            g.emit(["suspend", pool, act[-1][0]])
            g.count("suspend_req_for_a_container_that_never_ran")
    for _ in range(rng.randint(1, 6)):
        if g.dead:
            break
        g.tick()
    if not g.dead:
        g.assign(pool, cpus, 16, [(3, 0)])       # the whole pool: admissible only if everything has been given back, and nothing more than that
        for _ in range(4):
            if g.dead:
                break
            g.tick()
    g.sc["order"] = g.order
    return g


def gen_unrelated_branch_completes(seed, drv):
    """two branches in one pipeline, listed interleaved (a, b, d, c, e with a -> d -> e and b -> c): the fast branch a, d, e completes while the slow root b
    is still running, so as many operators have completed as are listed before c -- and c's only parent has not.  c is then asked to start, alone and as a
    later operator of a container: it must be refused"""
    rng = random.Random(seed)
    tps = rng.choice([1, 2])
    cfg = {"tps": tps, "multi": rng.random() < 0.5, "over": False, "npools": rng.choice([1, 2]), "cpus": 8, "ram": "8"}
    small = F(1, 64)
    extra = rng.randint(0, 2)                      # more operators on the fast branch
    ops = [simple_op(tps, 1, fixed=small),                      # 0 a
           simple_op(tps, 12 + 2 * extra, fixed=small),         # 1 b (slow)
           simple_op(tps, 1, fixed=small, parents=[0]),         # 2 d
           simple_op(tps, 1, fixed=small, parents=[1]),         # 3 c
           simple_op(tps, 1, fixed=small, parents=[2])]         # 4 e
    for i in range(extra):
        ops.append(simple_op(tps, 1, fixed=small, parents=[len(ops) - 1]))
    g = _mk(rng, cfg, [{"prio": 3, "ops": ops}], drv)
    g.assign(0, 1, 1, [(0, 1)])
    g.assign(0, 1, 1, [(0, 0)])
    g.tick(); g.tick()
    for o in [2, 4] + list(range(5, 5 + extra)):
        g.assign(cfg["npools"] - 1, 1, 1, [(0, o)])
        g.tick(); g.tick()
    g.count("start_with_running_parent_after_an_unrelated_branch_completed")
    g.assign(0, 1, 1, [(0, 3)])
    for _ in range(3):
        if g.dead:
            break
        g.tick()
    g.sc["order"] = g.order
    return g


def gen_zero_tick_tail(seed, drv):
    """multi-operator containers: an operator whose *last* segment rounds to no tick at all (an earlier one takes some), followed in the same container by
    an operator that does not depend on it.  The operator is complete when its ticks are used up -- the container must report a success only with every
    operator COMPLETED"""
    rng = random.Random(seed)
    tps = rng.choice([1, 2, 4])
    cfg = {"tps": tps, "multi": True, "over": False, "npools": 1, "cpus": 8, "ram": "8"}
    small = fstr(F(1, 64))
    zero = rng.choice([{"base": "0", "law": "const", "fixed": small, "read": "0"},
                       {"base": fstr(F(1, 4 * tps)), "law": "const", "fixed": small, "read": "0"}])
    first = {"parents": [], "segs": [{"base": fstr(F(rng.randint(1, 3), tps)), "law": "const", "fixed": small, "read": "0"}] +
                                    ([{"base": fstr(F(1, tps)), "law": "const", "fixed": small, "read": "0"}] if rng.random() < 0.4 else []) + [zero]}
    ops = [first, simple_op(tps, rng.randint(1, 2), fixed=F(1, 64))]
    refs = [(0, 0), (0, 1)]
    if rng.random() < 0.5:
        ops.append(simple_op(tps, 1, fixed=F(1, 64), parents=[0]))
        refs.append((0, 2))
    g = _mk(rng, cfg, [{"prio": 3, "ops": ops}], drv)
    g.assign(0, 1, 1, refs)
    g.count("zero_tick_last_segment_then_independent_operator")
    for _ in range(10):
        if g.dead:
            break
        g.tick()
    g.sc["order"] = g.order
    return g
