"""Directed scenario generation for layer E, steered by the *model's* state (so a scenario depends only
on the seed and the generator, never on the implementation under test)."""
import random
from fractions import Fraction as F
from common import Driver, fstr
from layer_e import quantum, to_q, exact_cpu_ticks, setup_lines, order_lines, step_line, Impl, LAWS

GB = [F(1, 64), F(1, 8), F(1, 2), 1, 2, 4, 8, 16, 32, 64]
READS = [0, F(5, 16), F(5, 8), F(5, 2), 5, 10, 20, 40]


def gen_pipes(rng, tps, npipes, max_ops=5, laws=("const",), zero_frac=0.05, profile="mixed"):
    pipes = []
    for _ in range(npipes):
        n = rng.randint(1, max_ops)
        shape = rng.choice(["random", "chain", "diamond", "fan", "multiroot"])
        ops = []
        for i in range(n):
            if shape == "chain":
                par = [i - 1] if i else []
            elif shape == "diamond" and n >= 4:
                par = [] if i == 0 else ([0] if i in (1, 2) else ([1, 2] if i == 3 else [i - 1]))
            elif shape == "fan":
                par = [0] if i else []
            elif shape == "multiroot":
                par = [] if i < 2 else sorted(rng.sample(range(i), min(i, rng.randint(1, 2))))
            else:
                k = rng.randint(0, min(3, i))
                par = sorted(rng.sample(range(i), k))
            segs = []
            for _s in range(rng.choice([1, 1, 1, 2, 3])):
                law = rng.choice(laws)
                if rng.random() < zero_frac:
                    base = rng.choice([F(0), F(1, 4 * tps)])
                else:
                    base = F(rng.choice([1, 1, 2, 3, 5, 8, 13]), tps) * rng.choice([1, 1, 2])
                if profile == "fixed":
                    fixed = rng.choice([F(1, 2), 1, 4, 16])
                elif profile == "growing":
                    fixed = None
                else:
                    fixed = rng.choice([None, None, None, 0, F(1, 2), 1, 4, 16])
                read = rng.choice(READS if rng.random() > zero_frac else [0])
                segs.append({"base": fstr(base), "law": law, "fixed": None if fixed is None else fstr(fixed), "read": fstr(read)})
            ops.append({"parents": par, "segs": segs})
        pipes.append({"prio": rng.choice([1, 2, 3, 3]), "ops": ops})
    return pipes


def peak_gb(op):
    return max([F(s["fixed"]) if s["fixed"] is not None else F(s["read"]) for s in op["segs"]] + [F(0)])


class GenE:
    """builds a scenario step by step while watching the model"""
    def __init__(self, rng, cfg, pipes, drv):
        self.rng, self.cfg, self.pipes, self.drv = rng, cfg, pipes, drv
        self.sc = {"layer": "E", "cfg": cfg, "pipes": pipes, "steps": []}
        self.q, self.g = quantum(cfg["tps"])
        self.order = Impl(self.sc).order
        drv.send("reset")
        self.pre = drv.batch(setup_lines(self.sc) + order_lines(self.sc, self.order))
        self.obs = []
        self.state = None          # last model world
        self.dead = False
        self.first = []
        g = 0
        for p in pipes:
            self.first.append(g)
            g += len(p["ops"])
        self.st = [["P"] * len(p["ops"]) for p in pipes]
        self.stats = {}

    def count(self, k, n=1):
        self.stats[k] = self.stats.get(k, 0) + n

    def emit(self, st):
        self.sc["steps"].append(st)
        o = self.drv.send(step_line(self.sc, st, self.q))
        self.obs.append(o)
        if "st" in o:
            self.st = [list(x) for x in o["st"]]
        if st[0] == "tick":
            if o.get("state"):
                self.state = o["state"]
                self.st = [list(x) for x in o["state"]["st"]]
            elif not o["ok"]:
                self.dead = True
        return o

    def ready(self, pid, oid):
        return all(self.st[pid][p] == "C" for p in self.pipes[pid]["ops"][oid]["parents"])

    def safe_cpu(self, refs, cpu):
        tps = self.cfg["tps"]
        for p, o in refs:
            for s in self.pipes[p]["ops"][o]["segs"]:
                if not exact_cpu_ticks(s["base"], s["law"], cpu, tps)[1]:
                    return False
        return True

    def pools(self):
        if self.state:
            return self.state["pools"]
        c = self.cfg
        return [{"ac": c["cpus"], "ar": to_q(c["ram"], self.q), "A": [], "S": [], "D": []} for _ in range(c["npools"])]

    def assign(self, pool, cpu, ram, refs, prio=None):
        if refs and not self.safe_cpu(refs, max(cpu, 1)):
            self.count("discard_unsafe_float")
            return None
        prio = prio if prio is not None else (self.pipes[refs[0][0]]["prio"] if refs else 3)
        o = self.emit(["assign", pool, cpu, fstr(ram), prio, [list(r) for r in refs]])
        self.count("assign_ok" if o["ok"] else "assign_err_" + o["err"])
        return o

    def tick(self):
        o = self.emit(["tick"])
        if o["ok"]:
            for r in o["res"]:
                self.count("res_ok" if r[1] else "res_fail")
        else:
            self.count("tick_err_" + o["err"])
        return o


def sensible_refs(g, pid, multi):
    cand = [o for o in range(len(g.pipes[pid]["ops"])) if g.st[pid][o] in "PF"]
    if not cand:
        return []
    if multi:
        return [(pid, o) for o in cand]
    rdy = [o for o in cand if g.ready(pid, o)]
    return [(pid, rdy[0])] if rdy else []


def gen_generic(seed, nticks=40, laws=("const",), over=None, tps_choices=(1, 2, 4, 8, 16, 64), drv=None, bias=None):
    """a weighted mix of admissible and inadmissible commands"""
    rng = random.Random(seed)
    bias = bias or {}
    tps = rng.choice(tps_choices)
    cfg = {"tps": tps, "multi": rng.random() < 0.65, "over": (rng.random() < 0.4) if over is None else over,
           "npools": rng.choice([1, 1, 2, 3]), "cpus": rng.choice([1, 2, 4, 8, 16]),
           "ram": fstr(rng.choice([F(1, 2), 2, 8, 32, 64, 100]))}
    pipes = gen_pipes(rng, tps, rng.randint(2, 6), laws=laws, zero_frac=bias.get("zero_frac", 0.04), profile=bias.get("profile", "mixed"))
    own = drv is None
    drv = drv or Driver()
    try:
        g = GenE(rng, cfg, pipes, drv)
        ramq = F(cfg["ram"])
        for t in range(nticks):
            if g.dead:
                break
            pools = g.pools()
            for _ in range(rng.choice([0, 1, 1, 1, 2, 3])):
                pid = rng.randrange(len(pipes))
                mode = rng.random()
                if mode < bias.get("sensible", 0.65):
                    refs = sensible_refs(g, pid, cfg["multi"] and rng.random() < 0.7)
                    if not refs:
                        continue
                else:
                    n = len(pipes[pid]["ops"])
                    sel = sorted(rng.sample(range(n), rng.randint(0, n)))
                    if rng.random() < 0.3:
                        rng.shuffle(sel)
                    refs = [(pid, o) for o in sel]
                pool = rng.randrange(cfg["npools"]) if rng.random() > bias.get("unknown_pool", 0.02) else cfg["npools"] + rng.randint(0, 2)
                pk = max([peak_gb(pipes[p]["ops"][o]) for p, o in refs] + [F(1, 64)])
                ram = rng.choice([pk, pk, pk + F(1, 64), max(pk - F(1, 64), F(1, 64)), F(1, 2), 2, 4, ramq, F(0)] if rng.random() < 0.9 else [ramq * 2])
                cpu = rng.choice([1, 1, 2, cfg["cpus"], 0] if rng.random() < 0.95 else [cfg["cpus"] + 1])
                g.assign(pool, cpu, ram, refs)
            for pi, p in enumerate(pools):
                for c in p["A"]:
                    r = rng.random()
                    if (c[4] and r < bias.get("suspend", 0.5)) or r < 0.03:
                        g.emit(["suspend", pi if rng.random() > 0.03 else cfg["npools"], c[0]])
                        g.count("suspend_req_legal" if c[4] else "suspend_req_illegal")
            if rng.random() < 0.01:
                g.emit(["suspend", 0, 999])
                g.count("suspend_req_unknown")
            g.tick()
        g.sc["order"] = g.order
        return g
    finally:
        if own:
            drv.close()
