"""Shared infrastructure of the checks: paths, build (extract + lake build, under a lock),
audit, the compiled model driver as a subprocess, evidence and verdict helpers."""
import fcntl, hashlib, json, os, re, subprocess, sys, time
from fractions import Fraction as F

VERIF = os.path.dirname(os.path.dirname(os.path.abspath(__file__)))
LEAN = os.path.join(VERIF, "lean")
REPO = os.environ.get("EUDOXIA_REPO", "/repo")
PY = "/venv/bin/python"
DRIVER = os.path.join(LEAN, ".lake", "build", "bin", "driver")
EVID = os.path.join(VERIF, "evidence")
REPLAYS = os.path.join(VERIF, "replays")
ALLOWED_AXIOMS = {"propext", "Classical.choice", "Quot.sound"}
FORBIDDEN = re.compile(r"\b(sorry|admit|native_decide|bv_decide|implemented_by)\b|^\s*axiom\s|\bunsafe\s|maxHeartbeats\s+0\b")


class TieBroken(Exception):
    """the implementation's trace cannot even be written in the model's vocabulary (e.g. an amount that is not a number of the lattice where the
    unchanged code only produces such numbers): the correspondence no longer checks"""


def sh(cmd, cwd=None, timeout=3600, env=None):
    e = dict(os.environ)
    if env:
        e.update(env)
    p = subprocess.run(cmd, cwd=cwd, capture_output=True, text=True, timeout=timeout, env=e, shell=isinstance(cmd, str))
    out = "\n".join(l for l in (p.stdout + p.stderr).splitlines() if "conda" not in l)
    return p.returncode, out


class BuildResult:
    def __init__(self, ok, stage, log, failing=None):
        self.ok, self.stage, self.log, self.failing = ok, stage, log, failing or []


def build():
    """extract from /repo, then `lake build` (library with all proofs + driver). Serialised by a lock."""
    os.makedirs(os.path.join(LEAN, ".lake"), exist_ok=True)
    with open(os.path.join(LEAN, ".lake", "verif.lock"), "w") as lk:
        fcntl.flock(lk, fcntl.LOCK_EX)
        rc, out = sh([PY, os.path.join(VERIF, "harness", "extract.py")], env={"EUDOXIA_REPO": REPO})
        if rc != 0:
            return BuildResult(False, "extract", out)
        rc, out = sh(["lake", "build"], cwd=LEAN)
        if rc != 0:
            failing = sorted(set(re.findall(r"error: (\S+\.lean):\d+", out)))
            return BuildResult(False, "lake build", out, failing)
        return BuildResult(True, "ok", out)


def comment_free(text):
    text = re.sub(r"/-.*?-/", "", text, flags=re.S)
    return re.sub(r"--.*", "", text)


def grep_forbidden():
    hits = []
    for root, _, files in os.walk(LEAN):
        if ".lake" in root:
            continue
        for f in files:
            if f.endswith(".lean"):
                p = os.path.join(root, f)
                for n, line in enumerate(comment_free(open(p).read()).splitlines(), 1):
                    if FORBIDDEN.search(line):
                        hits.append(f"{os.path.relpath(p, LEAN)}:{n}: {line.strip()}")
    return hits


def prop_theorems(prop):
    """names of the theorems stated in Props/<prop>.lean"""
    p = os.path.join(LEAN, "EudoxiaModel", "Props", f"{prop}.lean")
    if not os.path.exists(p):
        return []
    text = comment_free(open(p).read())
    ns = re.findall(r"^namespace\s+(\S+)", text, flags=re.M)
    prefix = (ns[0] + ".") if ns else ""
    return [prefix + n for n in re.findall(r"^theorem\s+(\S+)", text, flags=re.M)]


def audit(prop):
    """`#print axioms` of every theorem of Props/<prop>.lean; returns (ok, {theorem: [axioms]}, problems)"""
    thms = prop_theorems(prop)
    problems = list(grep_forbidden())
    if not thms:
        return False, {}, problems + [f"no theorems found in Props/{prop}.lean"]
    src = f"import EudoxiaModel.Props.{prop}\n" + "\n".join(f"#print axioms {t}" for t in thms) + "\n"
    path = os.path.join(LEAN, ".lake", f"audit_{prop}.lean")
    open(path, "w").write(src)
    rc, out = sh(["lake", "env", "lean", path], cwd=LEAN)
    axioms = {}
    for m in re.finditer(r"'([^']+)' (?:depends on axioms: \[([^\]]*)\]|does not depend on any axioms)", out.replace("\n", " ")):
        axioms[m.group(1)] = [a.strip() for a in (m.group(2) or "").split(",") if a.strip()]
    for t in thms:
        if t not in axioms:
            problems.append(f"no axiom report for {t}")
        elif not set(axioms[t]) <= ALLOWED_AXIOMS:
            problems.append(f"{t} depends on {axioms[t]}")
    if rc != 0:
        problems.append("audit run failed: " + out[-400:])
    return not problems, axioms, problems


class Driver:
    """the compiled Lean model behind the line protocol"""
    def __init__(self):
        self.p = subprocess.Popen([DRIVER], stdin=subprocess.PIPE, stdout=subprocess.PIPE, text=True, bufsize=1)
        self.lines = 0

    def send(self, line):
        self.p.stdin.write(line + "\n")
        self.p.stdin.flush()
        out = self.p.stdout.readline()
        self.lines += 1
        if not out:
            raise RuntimeError(f"driver died on: {line}")
        return json.loads(out)

    def batch(self, lines):
        return [self.send(l) for l in lines]

    def close(self):
        try:
            self.p.stdin.close()
            self.p.wait(timeout=5)
        except Exception:
            self.p.kill()


def run_driver_batch(lines):
    """one-shot: feed all lines, read all outputs (fast path)"""
    p = subprocess.run([DRIVER], input="\n".join(lines) + "\n", capture_output=True, text=True)
    outs = [json.loads(l) for l in p.stdout.splitlines() if l.strip()]
    return outs


def frac(x):
    if isinstance(x, F):
        return x
    if isinstance(x, str):
        return F(x)
    return F(x)


def fstr(x):
    x = F(x)
    return str(x.numerator) if x.denominator == 1 else f"{x.numerator}/{x.denominator}"


def num(x):
    """a Python number for the implementation: int when integral, else float"""
    x = F(x)
    return int(x) if x.denominator == 1 else float(x)


def write_json(path, obj):
    os.makedirs(os.path.dirname(path), exist_ok=True)
    tmp = path + ".tmp"
    with open(tmp, "w") as f:
        json.dump(obj, f, indent=1, default=str)
    os.replace(tmp, path)


def short_hash(obj):
    return hashlib.sha1(json.dumps(obj, sort_keys=True, default=str).encode()).hexdigest()[:10]


def load_known_findings():
    p = os.path.join(VERIF, "known_findings.json")
    if not os.path.exists(p):
        return []
    return json.load(open(p))


def known_match(prop, finding):
    """is this violation one of the listed open findings? (the file is never written at run time)"""
    for k in load_known_findings():
        if k.get("property") != prop or k.get("status") != "open":
            continue
        sig = k.get("signature", {})
        if sig and all(finding.get("sig", {}).get(key) == val for key, val in sig.items()):
            return k
    return None
